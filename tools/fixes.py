"""Record every `fix:` commit of /repo in known_findings.json ("fixed") and keep the reverse
patch of each as a seeded change (seeded/REV_<sha>/): re-introducing the defect must be reported."""
import json, os, subprocess, sys
ROOT = os.path.dirname(os.path.dirname(os.path.abspath(__file__)))
PROP = {
 "errstate restores": "C20", "refused seterr": "C20", "np.isin": "C14", "decodes stored IDs": "C01",
 "metadata-free HDF5 subset": "C14", "equality ignores": "C16", "honours axis": "C12", "remove_empty removes": "C08",
 "predicates receive": "C08", "escapes table id": "C02", "full precision": "C02", "keeps the other table": "C09",
 "emptied table": "C05", "transforms ignore": "C13", "nonzero() does not": "C05", "None metadata functions": "C09",
 "with replacement tolerates": "C12", "all-zero table survives": "C02", "any JSON serialisation": "C14",
 "numpy booleans": "C02", "min() and max()": "C19", "metadata_to_dataframe": "C19", "duplicated row or column": "C15",
 "version or metadata error": "C15", "empty or duplicated IDs": "C15", "element types and index ranges": "C15", "escaped quotes and brackets": "C14", "string and null header values": "C14",
}
def sh(c): return subprocess.run(c, shell=True, stdout=subprocess.PIPE, stderr=subprocess.STDOUT, text=True).stdout
log = sh("git -C /repo log --reverse --format='%h|%s' ").strip().split("\n")
kf = json.load(open(os.path.join(ROOT, "known_findings.json")))
kf["fixed"] = []
for ln in log:
    sha, subj = ln.split("|", 1)
    if not subj.startswith("fix:"):
        continue
    prop = next((v for k, v in PROP.items() if k in subj), None)
    if prop is None:
        print("no property for", subj); continue
    body = sh("git -C /repo log -1 --format=%%b %s" % sha).strip().replace("\n", " ")
    kf["fixed"].append({"entry": "fixed: property=%s %s %s" % (prop, sha, subj[5:]), "property": prop, "commit": sha,
                        "what_failed": body})
    d = os.path.join(ROOT, "seeded", "REV_" + sha)
    os.makedirs(d, exist_ok=True)
    if not os.path.exists(os.path.join(d, "patch.diff")):      # an existing patch may have been rebased by hand
        open(os.path.join(d, "patch.diff"), "w").write(sh("git -C /repo diff %s %s^" % (sha, sha)))
    json.dump({"id": "REV_" + sha, "property": prop, "summary": "reverse of fix commit %s (%s): re-introduces the defect" % (sha, subj),
               "needs": body, "kind": "reverse-of-fix"}, open(os.path.join(d, "meta.json"), "w"), indent=1)
    ok = sh("git -C /repo apply --check %s 2>&1" % os.path.join(d, "patch.diff"))
    print(sha, prop, "applies" if not ok.strip() else "CONFLICT: " + ok.strip()[:100])
json.dump(kf, open(os.path.join(ROOT, "known_findings.json"), "w"), indent=1)
