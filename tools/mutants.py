"""Seeded-defect bookkeeping.
  python tools/mutants.py validate <src_dir>      # confirm candidates from sub-agents, copy to /verif/seeded
  python tools/mutants.py run [ids...] [--tier quick] [--props C08,C05]   # apply each to /repo, run its check, undo
"""
import concurrent.futures as cf
import glob
import json
import os
import shutil
import subprocess
import sys

ROOT = os.path.dirname(os.path.dirname(os.path.abspath(__file__)))
SEEDED = os.path.join(ROOT, "seeded")


def sh(cmd, cwd=None, env=None, timeout=1800):
    e = dict(os.environ)
    e.update(env or {})
    p = subprocess.run(cmd, shell=True, cwd=cwd, env=e, stdout=subprocess.PIPE, stderr=subprocess.STDOUT, text=True,
                       timeout=timeout)
    return p.returncode, p.stdout


def validate_one(args):
    src, wt = args
    mid = os.path.basename(src.rstrip("/"))
    res = {"id": mid, "src": src}
    patch = os.path.join(src, "patch.diff")
    demo = os.path.join(src, "demo.py")
    if not (os.path.exists(patch) and os.path.exists(demo)):
        res["status"] = "incomplete"
        return res
    sh("git checkout -- . ", cwd=wt)
    rc, out = sh("git apply --check %s" % patch, cwd=wt)
    if rc != 0:
        res["status"] = "patch does not apply to current HEAD"
        res["detail"] = out[-300:]
        return res
    env = {"PYTHONPATH": wt}
    rc0, out0 = sh("/venv/bin/python %s" % demo, cwd=wt, env=env, timeout=600)
    res["demo_unchanged_exit"] = rc0
    sh("git apply %s" % patch, cwd=wt)
    rc1, out1 = sh("/venv/bin/python %s" % demo, cwd=wt, env=env, timeout=600)
    res["demo_mutant_exit"] = rc1
    res["demo_mutant_tail"] = out1[-400:]
    rct, outt = sh("/venv/bin/python -m pytest -q -p no:cacheprovider 2>&1 | tail -1", cwd=wt, timeout=1200)
    res["tests"] = outt.strip()
    sh("git checkout -- .", cwd=wt)
    ok = rc0 == 0 and rc1 != 0 and "failed" not in outt and "error" not in outt.lower() and "passed" in outt
    res["status"] = "confirmed" if ok else "rejected"
    return res


def validate(srcdir):
    cands = sorted(d for d in glob.glob(os.path.join(srcdir, "*C??_*")) if os.path.isdir(d))
    nwt = 6
    wts = []
    for i in range(nwt):
        wt = "/tmp/mutwt%d" % i
        sh("git -C /repo worktree remove --force %s" % wt)
        sh("git -C /repo worktree add -f %s HEAD" % wt)
        sh("cp /repo/biom/*.so %s/biom/" % wt)
        wts.append(wt)
    results = []
    try:
        with cf.ThreadPoolExecutor(max_workers=nwt) as ex:
            futs = []
            for i in range(nwt):
                mine = cands[i::nwt]
                futs.append(ex.submit(lambda lst, wt: [validate_one((c, wt)) for c in lst], mine, wts[i]))
            for f in futs:
                results.extend(f.result())
    finally:
        for wt in wts:
            sh("git -C /repo worktree remove --force %s" % wt)
    for r in sorted(results, key=lambda r: r["id"]):
        print(r["id"], r["status"], r.get("tests", ""), r.get("detail", "")[:120])
        if r["status"] == "confirmed":
            dst = os.path.join(SEEDED, r["id"])
            os.makedirs(dst, exist_ok=True)
            shutil.copy(os.path.join(r["src"], "patch.diff"), dst)
            shutil.copy(os.path.join(r["src"], "demo.py"), dst)
            meta = {}
            try:
                meta = json.load(open(os.path.join(r["src"], "meta.json")))
            except Exception:
                pass
            meta.update({"id": r["id"], "property": [x for x in r["id"].split("_") if x.startswith("C")][0],
                         "confirmed": {"tests_with_patch": r["tests"], "demo_unchanged_exit": r["demo_unchanged_exit"],
                                       "demo_mutant_exit": r["demo_mutant_exit"],
                                       "how": "git apply in a scratch worktree of /repo HEAD; full pytest suite; demo.py with "
                                              "and without the patch (tools/mutants.py validate)"}})
            json.dump(meta, open(os.path.join(dst, "meta.json"), "w"), indent=1)
    return results


def run_parallel(ids, tier, props_override, scratch, jobs):
    """jobs scratch worktrees side by side (each check already uses many cores; 3 overlap well)"""
    parts = [ids[i::jobs] for i in range(jobs)]
    with cf.ThreadPoolExecutor(max_workers=jobs) as ex:
        futs = [ex.submit(run, part, tier, props_override, "%s_%d" % (scratch, i)) for i, part in enumerate(parts) if part]
        out = []
        for f in futs:
            out.extend(f.result())
    return sorted(out, key=lambda r: r["id"])


def run(ids, tier, props_override=None, scratch=None):
    """apply each seeded change, run its check, undo.  With scratch=<dir> a worktree of /repo HEAD is
    created there and used as the tree under test (VERIF_REPO), so /repo itself is never touched."""
    out = []
    repo = "/repo"
    env = {}
    if scratch:
        sh("git -C /repo worktree remove --force %s" % scratch)
        sh("git -C /repo worktree add -f %s HEAD" % scratch)
        sh("cp /repo/biom/*.so /repo/biom/*.c %s/biom/" % scratch)
        repo = scratch
        env = {"VERIF_REPO": scratch}
    try:
        return _run(ids, tier, props_override, repo, env, out)
    finally:
        if scratch:
            sh("git -C /repo worktree remove --force %s" % scratch)


def _run(ids, tier, props_override, repo, env, out):
    for mid in ids:
        d = os.path.join(SEEDED, mid)
        meta = json.load(open(os.path.join(d, "meta.json")))
        props = props_override or [meta["property"]]
        rc, o = sh("git -C %s status --porcelain --untracked-files=no" % repo)
        if o.strip():
            print("refusing: %s has local modifications" % repo)
            sys.exit(2)
        rc, o = sh("git -C %s apply %s" % (repo, os.path.join(d, "patch.diff")))
        if rc != 0:
            print(mid, "PATCH-FAILS", o[-200:])
            continue
        try:
            for prop in props:
                rc, o = sh("./check %s --tier %s" % (prop, tier), cwd=ROOT, timeout=7200, env=env)
                viol = [ln for ln in o.splitlines() if ln.startswith("VIOLATION")]
                clauses = sorted({ln.split("clause=")[1].split()[0] for ln in viol if "clause=" in ln})
                verdict = "DETECTED" if rc == 1 and viol else ("MACHINERY" if rc == 2 else "MISSED")
                print("%-8s %-4s %-9s rc=%d clauses=%s" % (mid, prop, verdict, rc, clauses), flush=True)
                if verdict == "MACHINERY":
                    print(o[-600:])
                out.append({"id": mid, "prop": prop, "verdict": verdict, "clauses": clauses, "tier": tier})
        finally:
            sh("git -C %s checkout -- ." % repo)
    return out


if __name__ == "__main__":
    if sys.argv[1] == "validate":
        validate(sys.argv[2])
    elif sys.argv[1] == "run":
        args = sys.argv[2:]
        tier = "quick"
        props = None
        scratch = None
        jobs = 1
        ids = []
        i = 0
        while i < len(args):
            if args[i] == "--tier":
                tier = args[i + 1]; i += 2
            elif args[i] == "--props":
                props = args[i + 1].split(","); i += 2
            elif args[i] == "--scratch":
                scratch = args[i + 1]; i += 2
            elif args[i] == "--jobs":
                jobs = int(args[i + 1]); i += 2

            else:
                ids.append(args[i]); i += 1
        if not ids:
            ids = sorted(d for d in os.listdir(SEEDED) if os.path.isdir(os.path.join(SEEDED, d)))
        if jobs > 1 and scratch:
            res = run_parallel(ids, tier, props, scratch, jobs)
        else:
            res = run(ids, tier, props, scratch)
        json.dump(res, open(os.path.join(ROOT, ".work_mutant_results.json"), "w"), indent=1)
