"""Binding / anti-vacuity self-test (not a property check).

Records traces from the unchanged tree for every campaign, then CORRUPTS one logged field of the
last event of each trace (a matrix value, two swapped IDs, a metadata entry, the type, another
table of the heap, the outcome, a callback record, a lookup answer, a decoded file field, ...)
and has TLC judge the corrupted traces.  Reports, per clause of the specification, whether some
corruption made it fail.  A clause that is evaluated but never fails under any corruption is a
vacuity suspect and is listed.  Usage:  python tools/selftest.py [n_per_campaign]
"""
import collections
import copy
import json
import os
import random
import shutil
import sys

ROOT = os.path.dirname(os.path.dirname(os.path.abspath(__file__)))
sys.path.insert(0, ROOT)
sys.path.insert(0, os.environ.get("VERIF_REPO", "/repo"))
from harness import pipeline as P, families as F      # noqa: E402


def tables_of(ev):
    """(where, table) for every projected table of the event's post state and observations"""
    out = [("post." + s, t) for s, t in ev.get("post", {}).items()]
    for k, v in ev.get("obs", {}).items():
        if isinstance(v, dict) and "mat" in v and "obs" in v and "omd" in v and "type" in v:
            out.append(("obs." + k, v))
        if k == "parts" and isinstance(v, list):
            out.extend(("obs.parts%d" % i, p["t"]) for i, p in enumerate(v))
    return out


def bump(val):
    if not (isinstance(val, list) and len(val) == 2 and all(isinstance(x, int) for x in val)):
        return [7, 1]
    return [val[0] + 1, val[1]] if val[1] != 0 else [0, 1]


def corruptions(ev):
    """yield (name, corrupted event)"""
    def clone():
        return copy.deepcopy(ev)
    for where, t in tables_of(ev):
        path = where.split(".")
        def get(e):       # noqa
            if path[0] == "post":
                return e["post"][path[1]]
            if path[1].startswith("parts"):
                return e["obs"]["parts"][int(path[1][5:])]["t"]
            return e["obs"][path[1]]
        if t["mat"] and t["mat"][0]:
            e = clone(); tt = get(e); tt["mat"][0][0] = bump(tt["mat"][0][0]); yield "value:" + where, e
            e = clone(); tt = get(e); tt["mat"][-1][-1] = bump(tt["mat"][-1][-1]); yield "value_last:" + where, e
        if len(t["obs"]) >= 2:
            e = clone(); tt = get(e); tt["obs"][0], tt["obs"][1] = tt["obs"][1], tt["obs"][0]; yield "swap_obs_ids:" + where, e
            e = clone(); tt = get(e); tt["mat"][0], tt["mat"][1] = tt["mat"][1], tt["mat"][0]; yield "swap_rows:" + where, e
        if len(t["samp"]) >= 2:
            e = clone(); tt = get(e); tt["samp"][0], tt["samp"][-1] = tt["samp"][-1], tt["samp"][0]; yield "swap_samp_ids:" + where, e
        if t["obs"]:
            e = clone(); tt = get(e); tt["obs"][0] = "zz9"; yield "rename_obs:" + where, e
            e = clone(); tt = get(e); tt["obs"] = tt["obs"][1:]; yield "drop_obs_id:" + where, e
        if t["samp"]:
            e = clone(); tt = get(e); tt["samp"][-1] = "zz8"; yield "rename_samp:" + where, e
        for ax in ("omd", "smd"):
            if t[ax]["has"] and t[ax]["rows"] and t[ax]["rows"][0]:
                e = clone(); tt = get(e); tt[ax]["rows"][0][0][2] = ["CORRUPT"]; yield "md_value:%s:%s" % (ax, where), e
                e = clone(); tt = get(e); tt[ax]["rows"][0] = tt[ax]["rows"][0][1:]; yield "md_dropkey:%s:%s" % (ax, where), e
                if len(t[ax]["rows"]) >= 2:
                    e = clone(); tt = get(e); r = tt[ax]["rows"]; r[0], r[-1] = r[-1], r[0]; yield "md_swap:%s:%s" % (ax, where), e
            elif not t[ax]["has"] and ((ax == "omd" and t["obs"]) or (ax == "smd" and t["samp"])):
                e = clone(); tt = get(e); n = len(tt["obs"] if ax == "omd" else tt["samp"])
                tt[ax] = {"has": True, "rows": [[["kX", "s", ["v"]]] for _ in range(n)]}; yield "md_invented:%s:%s" % (ax, where), e
        e = clone(); tt = get(e); tt["type"] = "Corrupt table"; yield "type:" + where, e
        e = clone(); tt = get(e); tt["tid"] = "corrupt-id"; yield "table_id:" + where, e
        if "lk" in t and t["lk"]["obs"]:
            e = clone(); tt = get(e); tt["lk"]["obs"][0] = 99; yield "stale_lookup:" + where, e
            e = clone(); tt = get(e); tt["lk"]["unknown_found"] = True; yield "unknown_found:" + where, e
            e = clone(); tt = get(e); tt["lk"]["shape"] = [77, 1]; yield "lk_shape:" + where, e
    if ev["call"] != "draws":
        e = clone(); e["out"] = "error:Corrupt" if ev["out"] == "ok" else "ok"; yield "outcome", e
    if ev["out"] == "ok" and ev.get("res") in ev.get("post", {}) and ev.get("res") not in ev.get("pre", {}):
        e = clone(); del e["post"][ev["res"]]; e["out"] = "table_error"; yield "outcome_table_error_no_result", e
    if ev["out"] != "ok" and ev.get("res") and ev.get("res") not in ev.get("post", {}) and ev.get("pre"):
        e = clone(); e["post"][ev["res"]] = copy.deepcopy(next(iter(ev["pre"].values()))); yield "result_appears_on_failure", e
    obs = ev.get("obs", {})
    for k, v in obs.items():
        if isinstance(v, bool):
            e = clone(); e["obs"][k] = not v; yield "flip:obs." + k, e
        elif isinstance(v, str) and k.endswith("_out"):
            e = clone(); e["obs"][k] = "error:Corrupt" if v == "ok" else "ok"; yield "flip:obs." + k, e
    if isinstance(obs.get("calls"), list) and obs["calls"]:
        c0 = obs["calls"][0]
        if "vec" in c0 and c0["vec"]:
            e = clone(); e["obs"]["calls"][0]["vec"][0] = bump(c0["vec"][0]); yield "calls_vec", e
        if "vals" in c0 and c0["vals"]:
            e = clone(); e["obs"]["calls"][0]["vals"][0] = bump(c0["vals"][0]); yield "calls_vals", e
            e = clone(); e["obs"]["calls"][0]["ret"][0] = bump(c0["ret"][0]); yield "calls_ret", e
        e = clone(); e["obs"]["calls"][0]["id"] = "zz7"; yield "calls_id", e
        e = clone(); e["obs"]["calls"][0]["md"] = [["kX", "s", ["v"]]]; yield "calls_md", e
        e = clone(); e["obs"]["calls"] = e["obs"]["calls"][1:]; yield "calls_dropped", e
        if len(obs["calls"]) >= 2:
            e = clone(); e["obs"]["calls"] = e["obs"]["calls"][::-1]; yield "calls_reversed", e
        if "ret" in c0 and isinstance(c0["ret"], bool):
            e = clone(); e["obs"]["calls"][0]["ret"] = not c0["ret"]; yield "calls_ret_flip", e
    if isinstance(obs.get("labels"), list) and obs["labels"]:
        e = clone(); e["obs"]["labels"][0]["label"] = "gZZ"; yield "labels_label", e
        e = clone(); e["obs"]["labels"] = e["obs"]["labels"][1:]; yield "labels_dropped", e
    if isinstance(obs.get("mdcalls"), list) and obs["mdcalls"]:
        e = clone(); e["obs"]["mdcalls"][0]["ret"] = [["kX", "s", ["v"]]]; yield "mdcalls_ret", e
        e = clone(); e["obs"]["mdcalls"][0]["self_md"] = [["kX", "s", ["v"]]]; yield "mdcalls_self", e
        e = clone(); e["obs"]["mdcalls"] = e["obs"]["mdcalls"][1:]; yield "mdcalls_dropped", e
    for k in ("sort_in", "sort_out"):
        if isinstance(obs.get(k), list) and len(obs[k]) >= 2:
            e = clone(); e["obs"][k] = e["obs"][k][::-1]; yield "reverse:obs." + k, e
    if "value" in obs and ev["call"] in ("read", "summary"):
        v = obs["value"]
        e = clone()
        if isinstance(v, bool):
            e["obs"]["value"] = not v
        elif isinstance(v, int):
            e["obs"]["value"] = v + 1
        elif isinstance(v, list) and v and isinstance(v[0], int) and len(v) == 2:
            e["obs"]["value"] = bump(v)
        elif isinstance(v, list) and v:
            x = v[0]
            if isinstance(x, list) and len(x) == 2 and all(isinstance(y, int) for y in x):
                e["obs"]["value"][0] = bump(x)
            elif isinstance(x, str):
                e["obs"]["value"][0] = "zz6"
            elif isinstance(x, dict) and "vec" in x and x["vec"]:
                e["obs"]["value"][0]["vec"][0] = bump(x["vec"][0])
            elif isinstance(x, list) and x and isinstance(x[0], dict) and x[0].get("vec"):
                e["obs"]["value"][0][0]["vec"][0] = bump(x[0]["vec"][0])
            elif isinstance(x, list) and x and isinstance(x[0], str):
                e["obs"]["value"][0][0] = "zz6"
            elif isinstance(x, list) and x and isinstance(x[0], list):
                e["obs"]["value"][0][0] = bump(x[0])
            else:
                e = None
        elif isinstance(v, dict):
            done = False
            for kk, vv in v.items():
                if isinstance(vv, list) and len(vv) == 2 and all(isinstance(y, int) for y in vv):
                    e["obs"]["value"][kk] = bump(vv); done = True; break
                if isinstance(vv, int) and not isinstance(vv, bool):
                    e["obs"]["value"][kk] = vv + 1; done = True; break
            if not done:
                e = None
        else:
            e = None
        if e is not None:
            yield "value:obs.value", e
        if isinstance(v, dict):
            for kk in ("index", "columns", "obs", "samp", "detail", "counts", "smd_keys"):
                if isinstance(v.get(kk), list) and len(v[kk]) >= 2:
                    e = clone(); e["obs"]["value"][kk] = e["obs"]["value"][kk][::-1]; yield "reverse:obs.value." + kk, e
            for kk in ("mat", "rows"):
                if isinstance(v.get(kk), list) and v[kk] and v[kk][0]:
                    e = clone()
                    x = e["obs"]["value"][kk][0][0]
                    e["obs"]["value"][kk][0][0] = bump(x) if (len(x) == 2 and isinstance(x[0], int)) else ["s", ["CORRUPT"]]
                    yield "cell:obs.value." + kk, e
            for kk in ("median", "mean", "min", "max", "total", "density"):
                if isinstance(v.get(kk), list) and len(v[kk]) == 2:
                    e = clone(); e["obs"]["value"][kk] = [v[kk][0] + v[kk][1], v[kk][1]]; yield "figure:obs.value." + kk, e
    if isinstance(obs.get("via"), list) and obs["via"] and obs["via"][0]["mat"] and obs["via"][0]["mat"][0]:
        e = clone(); e["obs"]["via"][-1]["mat"][0][0] = bump(e["obs"]["via"][-1]["mat"][0][0]); yield "via_value", e
    for k in ("nnz",):
        if isinstance(obs.get(k), int):
            e = clone(); e["obs"][k] += 1; yield "inc:obs." + k, e
    if isinstance(obs.get("density"), list):
        e = clone(); e["obs"]["density"] = [1, 977]; yield "density", e
    raw = obs.get("raw")
    if isinstance(raw, dict) and raw.get("attrs", {}).get("present"):
        for name, fn in [
            ("raw_nnz", lambda r: r["attrs"].__setitem__("nnz", r["attrs"]["nnz"] + 1)),
            ("raw_shape", lambda r: r["attrs"].__setitem__("shape", [r["attrs"]["shape"][0] + 1, r["attrs"]["shape"][1]])),
            ("raw_version", lambda r: r["attrs"].__setitem__("version", [1, 0])),
            ("raw_url", lambda r: r["attrs"].__setitem__("url", "http://example.org")),
            ("raw_type", lambda r: r["attrs"].__setitem__("type", "Corrupt")),
            ("raw_attr_missing", lambda r: r["attrs"].__setitem__("present", [x for x in r["attrs"]["present"] if x != "nnz"])),
            ("raw_group_missing", lambda r: r.__setitem__("groups", [x for x in r["groups"] if x != "sample/group-metadata"])),
            ("raw_dataset_missing", lambda r: r.__setitem__("datasets", [x for x in r["datasets"] if x != "sample/matrix/indptr"])),
            ("raw_dtype_data", lambda r: r["obs"].__setitem__("dt_data", "int32")),
            ("raw_dtype_indices", lambda r: r["samp"].__setitem__("dt_indices", "int64")),
            ("raw_ids", lambda r: r["obs"].__setitem__("ids", r["obs"]["ids"][::-1] if len(r["obs"]["ids"]) > 1 else ["zz"])),
            ("raw_indptr", lambda r: r["obs"]["indptr"].__setitem__(-1, r["obs"]["indptr"][-1] + 1)),
            ("raw_indices", lambda r: r["samp"]["indices"].__setitem__(0, 99) if r["samp"]["indices"] else None),
            ("raw_data", lambda r: r["obs"]["data"].__setitem__(0, bump(r["obs"]["data"][0])) if r["obs"]["data"] else None),
            ("raw_stored_zero", lambda r: r["samp"]["data"].__setitem__(0, [0, 1]) if r["samp"]["data"] else None),
            ("raw_md_len", lambda r: r["obs"]["md"][0].__setitem__("len", 99) if r["obs"]["md"] else
             (r["samp"]["md"][0].__setitem__("len", 99) if r["samp"]["md"] else None)),
            ("raw_md_name", lambda r: r["obs"]["md"].append({"name": "invented", "len": len(r["obs"]["ids"])})),
        ]:
            e = clone(); fn(e["obs"]["raw"]); yield name, e
    hdr = obs.get("hdr")
    if isinstance(hdr, dict) and hdr.get("gen") is not None and ev["call"].startswith("rt_"):
        e = clone(); e["obs"]["hdr"]["gen"] = "corrupt"; yield "hdr_gen", e
        e = clone(); e["obs"]["hdr"]["date"] = "1999-01-01T00:00:00"; yield "hdr_date", e
        e = clone(); e["obs"]["hdr"]["gmd_obs"] = [["invented", "x"]]; yield "hdr_gmd", e
    if isinstance(obs.get("wrote"), str):
        e = clone(); e["obs"]["wrote"] = "IOError: corrupt"; yield "wrote", e
    if isinstance(obs.get("facts"), dict):
        for k in obs["facts"]:
            e = clone(); e["obs"]["facts"][k] = not obs["facts"][k]; yield "fact:" + k, e
        if obs.get("declared", {}).get("mat") and obs["declared"]["mat"][0]:
            e = clone(); e["obs"]["declared"]["mat"][0][0] = bump(e["obs"]["declared"]["mat"][0][0]); yield "declared_value", e
            e = clone(); e["obs"]["loaded"] = "ValueError: corrupt"; yield "loaded", e
    if ev["call"] == "eqx" and isinstance(obs.get("exp_a"), dict) and obs["exp_a"].get("tsv"):
        xa = obs["exp_a"]
        if xa["tsv"]["mat"] and xa["tsv"]["mat"][0]:
            e = clone(); m_ = e["obs"]["exp_a"]["tsv"]["mat"]; m_[0][0] = bump(m_[0][0]); yield "exp_tsv_value", e
        if xa["tsv"]["samp"]:
            e = clone(); e["obs"]["exp_b"]["tsv"]["samp"][0] = "zz4"; yield "exp_tsv_id", e
        if xa["json"]["mat"] and xa["json"]["mat"][0]:
            e = clone(); m_ = e["obs"]["exp_b"]["json"]["mat"]; m_[-1][-1] = bump(m_[-1][-1]); yield "exp_json_value", e
            e = clone(); e["obs"]["exp_a"]["json"]["type"] = "Corrupt"; yield "exp_json_type", e
            e = clone(); e["obs"]["exp_a"]["json"]["obs"] = e["obs"]["exp_a"]["json"]["obs"][::-1] if len(xa["json"]["obs"]) > 1 else ["zz"]; yield "exp_json_ids", e
        for ax in ("omd", "smd"):
            if xa["json"][ax]["has"] and xa["json"][ax]["rows"] and xa["json"][ax]["rows"][0]:
                e = clone(); e["obs"]["exp_a"]["json"][ax]["rows"][0][0][2] = ["CORRUPT"]; yield "exp_json_md", e
        if xa["hdf5"]["ok"]:
            e = clone(); e["obs"]["exp_a"]["hdf5"]["ok"] = False; yield "exp_h5_failed", e
            if xa["hdf5"]["raw"]["obs"]["data"]:
                e = clone(); d_ = e["obs"]["exp_a"]["hdf5"]["raw"]["obs"]["data"]; d_[0] = bump(d_[0]); yield "exp_h5_raw_data", e
                e = clone(); d_ = e["obs"]["exp_b"]["hdf5"]["raw"]["samp"]["data"]; d_[-1] = bump(d_[-1]); yield "exp_h5_raw_data_samp", e
            e = clone(); e["obs"]["exp_b"]["hdf5"]["raw"]["attrs"]["nnz"] += 1; yield "exp_h5_nnz", e
            e = clone(); m_ = e["obs"]["exp_b"]["hdf5"]["loaded"]["mat"]; m_[0][0] = bump(m_[0][0]); yield "exp_h5_loaded", e
        if obs.get("q_a"):
            e = clone(); e["obs"]["q_a"][len(obs["q_a"]) // 2] = "corrupt answer"; yield "query_answer", e
    if ev["call"] == "draws":
        h = obs["hist"]
        if len(h) >= 2:
            e = clone(); hh = e["obs"]["hist"]; mv = hh[0][1] // 3; hh[0][1] -= mv; hh[1][1] += mv; yield "draws_skewed", e
            e = clone(); hh = e["obs"]["hist"]; hh[-2][1] += hh[-1][1]; del hh[-1]; yield "draws_outcome_never_drawn", e
        e = clone(); hh = e["obs"]["hist"]; hh[0][0] = [[9 for _ in v] for v in hh[0][0]]; yield "draws_impossible_outcome", e
        e = clone(); e["obs"]["errors"] = 3; yield "draws_errors", e
    if isinstance(obs.get("parsed"), list) and obs["parsed"]:
        e = clone(); e["obs"]["parsed"][0][0] = "zz5"; yield "parsed_id", e
        e = clone(); e["obs"]["parsed"] = e["obs"]["parsed"][1:]; yield "parsed_dropped", e
        if obs["parsed"][0][1]:
            e = clone(); e["obs"]["parsed"][0][1][0][2] = ["CORRUPT"]; yield "parsed_value", e
            e = clone(); e["obs"]["parsed"][0][1] = e["obs"]["parsed"][0][1][1:]; yield "parsed_dropkey", e


ERR_FIELDS = {"out": lambda v: "KeyError" if v == "ok" else "ok", "react": lambda v: "passed" if v != "passed" else "raised",
              "extra": lambda v: "warned", "cb_arg_ok": lambda v: not v}


def err_corruptions(ev):
    for k, fn in ERR_FIELDS.items():
        if k in ev:
            e = copy.deepcopy(ev); e[k] = fn(ev[k]); yield "err:" + k, e
    if "prof" in ev:
        e = copy.deepcopy(ev); e["prof"]["obsdup"] = "print" if ev["prof"]["obsdup"] != "print" else "warn"; yield "err:prof", e
    if "ret" in ev and isinstance(ev["ret"], dict):
        e = copy.deepcopy(ev); e["ret"]["empty"] = "call" if ev["ret"]["empty"] != "call" else "warn"; yield "err:ret", e


def main():
    n = int(sys.argv[1]) if len(sys.argv) > 1 else 120
    only = set(sys.argv[2:])
    wd = P.workdir("selftest")
    rng = random.Random(1)
    evaluated = collections.Counter()
    fired = collections.defaultdict(collections.Counter)      # clause -> corruption name -> count
    base_fail = collections.Counter()
    total = 0
    machinery = []
    try:
        for name, camp in F.CAMPAIGNS.items():
            if camp.get("kind") == "recorded" or (only and name not in only):
                continue
            c = F.run_campaign(dict(camp, keep_traces=True), "quick", 0, wd)
            traces = c["traces"]
            for f in c["judge"]["fails"]:
                base_fail[f["clause"]] += 1
            for cl, k in c["judge"]["clauses"].items():
                evaluated[cl] += k
            # two traces of every kind of last event (call, outcome, argument shape), then a random fill
            groups = collections.defaultdict(list)
            for t in traces:
                le = t["events"][-1]
                key = (le.get("call", le.get("act")), str(le.get("out")), json.dumps(sorted((le.get("args") or {}).keys())),
                       str((le.get("args") or {}).get("kind", "")), str((le.get("args") or {}).get("inplace", "")),
                       str(le.get("react", ""))[:6], tuple(sorted(str(x.get("react", ""))[:6] for x in t["events"]))[:4]
                       if camp.get("kind") == "err" else "")
                groups[key].append(t)
            sample = []
            for key, ts in groups.items():
                sample.extend(rng.sample(ts, min(2, len(ts))))
            rest = [t for t in traces if t not in sample] if len(traces) < 4000 else traces
            sample.extend(rng.sample(rest, min(n, len(rest))))
            corrupted, names = [], {}
            tid = 0
            for t in sample:
                positions = range(len(t["events"])) if camp.get("kind") == "err" else [len(t["events"]) - 1]
                for pos in positions:
                    cur = t["events"][pos]
                    gen = err_corruptions(cur) if camp.get("kind") == "err" else corruptions(cur)
                    for cname, ev in gen:
                        tid += 1
                        tt = {"id": tid, "pal": t.get("pal"), "events": t["events"][:pos] + [ev] + t["events"][pos + 1:]}
                        corrupted.append(tt)
                        names[tid] = cname.split(":")[0] + (":" + cname.split(":")[1] if cname.count(":") else "")
            if not corrupted:
                continue
            try:
                j = P.judge(corrupted, wd, module=camp["judge"][0], cfg=camp["judge"][1], name="st_" + name)
            except P.Machinery as e:        # the judge must be total: report, keep going
                machinery.append({"campaign": name, "error": str(e)[-600:]})
                print("  selftest %-24s JUDGE NOT TOTAL on a corrupted trace (see SELFTEST.json)" % name, flush=True)
                continue
            total += len(corrupted)
            for f in j["fails"]:
                fired[f["clause"]][names[f["id"]]] += 1
            print("  selftest %-24s corrupted traces=%d distinct clauses failing=%d" % (name, len(corrupted), len({f["clause"] for f in j["fails"]})), flush=True)
    finally:
        shutil.rmtree(wd, ignore_errors=True)
    clauses = sorted(c for c in evaluated if not c.startswith("TRACE") and "out_of_domain" not in c)
    never = [c for c in clauses if c not in fired]
    rep = {"corrupted_traces_judged": total, "clauses_evaluated": len(clauses), "clauses_failing_under_some_corruption": len(clauses) - len(never),
           "never_failed": never, "judge_not_total": machinery, "failing_on_uncorrupted_traces": dict(base_fail),
           "which_corruption_fires_which_clause": {c: dict(v.most_common(4)) for c, v in sorted(fired.items())}}
    with open(os.path.join(ROOT, "seeded", "SELFTEST.json" if not only else "SELFTEST_partial.json"), "w") as f:
        json.dump(rep, f, indent=1)
    print("corrupted traces judged:", total)
    print("clauses evaluated: %d, failing under some corruption: %d" % (len(clauses), len(clauses) - len(never)))
    print("never failed:", never)


if __name__ == "__main__":
    main()
