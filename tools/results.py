"""Regenerate seeded/RESULTS.md from sweep result files.
usage: python tools/results.py <own.json> [<cross.json> ...]
  own.json   : output of `tools/mutants.py run` (every change against the check of its own property)
  cross.json : further outputs run with --props (a change against checks of other properties)
"""
import json
import os
import sys

ROOT = os.path.dirname(os.path.dirname(os.path.abspath(__file__)))
SEEDED = os.path.join(ROOT, "seeded")


def main():
    own = json.load(open(sys.argv[1]))
    cross = [r for f in sys.argv[2:] for r in json.load(open(f))]
    by = {}
    for r in own:
        by.setdefault(r["id"], {"own": None, "cross": []})
        meta = json.load(open(os.path.join(SEEDED, r["id"], "meta.json")))
        if r["prop"] == meta["property"]:
            by[r["id"]]["own"] = r
        else:
            by[r["id"]]["cross"].append(r)
    for r in cross:
        by.setdefault(r["id"], {"own": None, "cross": []})["cross"].append(r)
    lines = ["# Seeded changes and the checks that catch them", "",
             "Each row: a change to biocore/biom-format that keeps the repository's 377 tests green and breaks the named "
             "property (`seeded/<id>/patch.diff`, `demo.py`, `meta.json`). `Cxx_k` / `R2_Cxx_k`: written by sub-agents that "
             "saw only the text of the property (rounds 1 and 2); `REV_<sha>`: the reverse of a `fix:` commit (re-introduces "
             "a defect the checks found on the original tree); `C12_D*`: written by hand for the distribution clauses. "
             "Result of `./check <property> --tier quick` with the change applied to a scratch worktree "
             "(`tools/mutants.py run --scratch <dir> --jobs 3`), seed 0.", "",
             "| id | property | quick check of that property | failing clauses | also run against |", "|---|---|---|---|---|"]
    n = det = anyd = 0
    for mid in sorted(by):
        e = by[mid]
        meta = json.load(open(os.path.join(SEEDED, mid, "meta.json")))
        o = e["own"]
        n += 1
        v = "not run" if o is None else {"DETECTED": "detected", "MISSED": "**missed**", "MACHINERY": "machinery failure"}[o["verdict"]]
        det += bool(o and o["verdict"] == "DETECTED")
        cr = "; ".join("%s: %s%s" % (c["prop"], c["verdict"].lower(), (" (" + ", ".join(c["clauses"][:3]) + ")") if c["clauses"] else "")
                       for c in e["cross"])
        anyd += bool((o and o["verdict"] == "DETECTED") or any(c["verdict"] == "DETECTED" for c in e["cross"]))
        lines.append("| %s | %s | %s | %s | %s |" % (mid, meta["property"], v, ", ".join(o["clauses"][:6]) if o else "", cr))
    lines += ["", "%d changes; %d detected by the quick check of their own property; %d detected by some check." % (n, det, anyd), ""]
    notes = os.path.join(SEEDED, "RESULTS_NOTES.md")
    if os.path.exists(notes):
        lines.append(open(notes).read())
    with open(os.path.join(SEEDED, "RESULTS.md"), "w") as f:
        f.write("\n".join(lines))
    print("%d changes; own-property detected %d; any %d" % (n, det, anyd))


main()
