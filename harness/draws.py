"""Distribution half of C12 ("each original unit count (or ID) is equally likely to be kept").

A configuration names a few small count vectors, a depth n and a mode; the real Table.subsample is
called K times (seeds s0 .. s0+K-1) on the table holding those vectors and the outcomes are
summarised as a histogram.  The histogram is one event for spec/BiomDrawTrace.tla, which computes
the exact reference distribution from the statement of the property and decides the clauses.
spec/MC_Draws.tla checks those weights against their closed-form normalisers.
"""
import collections
import concurrent.futures as cf
import os

# total weight of every configuration is <= 60 (BiomDrawTrace keeps its arithmetic in 32 bits)
CONFIGS = {
    "quick": [
        {"vectors": [[2, 0, 1, 3]], "n": 3, "mode": "without", "axis": "sample", "layout": "csr"},      # T=20
        {"vectors": [[3, 1, 2]], "n": 2, "mode": "without", "axis": "observation", "layout": "csc"},    # T=15
        {"vectors": [[2, 1], [1, 2]], "n": 2, "mode": "without", "axis": "sample", "layout": "csc"},    # T=3*3
        {"vectors": [[1, 2, 0, 1]], "n": 2, "mode": "with", "axis": "sample", "layout": "csr"},         # T=16
        {"vectors": [[2, 1, 1]], "n": 3, "mode": "with", "axis": "observation", "layout": "csr"},       # T=64 -> see below
        {"vectors": [[1, 1, 1, 1, 1]], "n": 2, "mode": "by_id", "axis": "sample", "layout": "csr"},     # T=10
        {"vectors": [[1, 1, 1, 1]], "n": 3, "mode": "by_id", "axis": "observation", "layout": "csc"},   # T=4
    ],
    "thorough": [
        {"vectors": [[2, 0, 1, 3]], "n": 3, "mode": "without", "axis": "sample", "layout": "csr"},
        {"vectors": [[2, 0, 1, 3]], "n": 3, "mode": "without", "axis": "observation", "layout": "csc"},
        {"vectors": [[1, 1, 1, 1, 1, 1]], "n": 3, "mode": "without", "axis": "sample", "layout": "csc"},    # T=20
        {"vectors": [[4, 2]], "n": 3, "mode": "without", "axis": "sample", "layout": "csr"},                # T=20
        {"vectors": [[5, 1, 1]], "n": 6, "mode": "without", "axis": "observation", "layout": "csr"},        # T=7
        {"vectors": [[3, 1, 2]], "n": 2, "mode": "without", "axis": "observation", "layout": "csc"},
        {"vectors": [[2, 1], [1, 2]], "n": 2, "mode": "without", "axis": "sample", "layout": "csc"},
        {"vectors": [[2, 1], [1, 2], [3, 0]], "n": 2, "mode": "without", "axis": "observation", "layout": "csr"},  # 27
        {"vectors": [[2, 2], [1, 0]], "n": 2, "mode": "without", "axis": "sample", "layout": "csr"},        # second dropped
        {"vectors": [[1, 2, 0, 1]], "n": 2, "mode": "with", "axis": "sample", "layout": "csr"},
        {"vectors": [[1, 2, 0, 1]], "n": 2, "mode": "with", "axis": "observation", "layout": "csc"},
        {"vectors": [[3, 1]], "n": 2, "mode": "with", "axis": "sample", "layout": "csc"},                   # T=16
        {"vectors": [[1, 1], [2, 1]], "n": 2, "mode": "with", "axis": "sample", "layout": "csr"},           # 4*9
        {"vectors": [[2, 1, 1]], "n": 2, "mode": "with", "axis": "observation", "layout": "csr"},           # 16
        {"vectors": [[1, 1, 1, 1, 1]], "n": 2, "mode": "by_id", "axis": "sample", "layout": "csr"},
        {"vectors": [[1, 1, 1, 1, 1]], "n": 3, "mode": "by_id", "axis": "observation", "layout": "csc"},
        {"vectors": [[1, 1, 1, 1]], "n": 1, "mode": "by_id", "axis": "observation", "layout": "csr"},
        {"vectors": [[1, 1, 1, 1]], "n": 3, "mode": "by_id", "axis": "sample", "layout": "csc"},
        {"vectors": [[1, 1, 1]], "n": 5, "mode": "by_id", "axis": "sample", "layout": "csr"},               # n > k: all kept
    ],
}
CONFIGS["quick"][4] = {"vectors": [[2, 1, 1]], "n": 2, "mode": "with", "axis": "observation", "layout": "csr"}  # T=16
DRAWS = {"quick": 4000, "thorough": 20000}


def _table(cfg):
    import numpy as np
    import scipy.sparse as sp
    from biom.table import Table
    vs = cfg["vectors"]
    if cfg["mode"] == "by_id":
        k = len(vs[0])
        # k IDs on the axis, each with counts on two coordinates of the other axis
        vs = [[1 + (i % 2), 1] for i in range(k)]
    m = np.array(vs, dtype=float)                 # one row per vector
    vec_ids = ["v%d" % i for i in range(len(vs))]
    co_ids = ["k%d" % i for i in range(len(vs[0]))]
    if cfg["axis"] == "sample":
        data, obs, samp = m.T, co_ids, vec_ids      # vectors are sample columns
    else:
        data, obs, samp = m, vec_ids, co_ids
    mat = sp.csr_matrix(data) if cfg["layout"] == "csr" else sp.csc_matrix(data)
    return Table(mat, obs, samp), vec_ids, co_ids


def _chunk(arg):
    cfg, s0, s1 = arg
    hist = collections.Counter()
    errors = 0
    t, vec_ids, co_ids = _table(cfg)
    axis = cfg["axis"]
    for seed in range(s0, s1):
        try:
            r = t.subsample(cfg["n"], axis=axis, by_id=cfg["mode"] == "by_id",
                            with_replacement=cfg["mode"] == "with", seed=seed)
        except Exception:
            errors += 1
            continue
        vset = set(r.ids(axis=axis))
        cset = set(r.ids(axis="observation" if axis == "sample" else "sample"))
        if cfg["mode"] == "by_id":
            out = (tuple(1 if v in vset else 0 for v in vec_ids),)
        else:
            rows = []
            for v in vec_ids:
                row = []
                for c in co_ids:
                    if v in vset and c in cset:
                        x = r.get_value_by_ids(c, v) if axis == "sample" else r.get_value_by_ids(v, c)
                        row.append(int(x) if float(x) == int(x) else -1)
                    else:
                        row.append(0)
                rows.append(tuple(row))
            out = tuple(rows)
        hist[out] += 1
    return hist, errors


def collect(cfg, K, seed0, pool):
    step = max(1, K // 16)
    jobs = [(cfg, seed0 + a, seed0 + min(K, a + step)) for a in range(0, K, step)]
    hist, errors = collections.Counter(), 0
    for h, e in pool.map(_chunk, jobs):
        hist.update(h)
        errors += e
    return hist, errors


def run_draw_campaign(camp, tier, seed, wd):
    import time
    from . import pipeline as P
    t0 = time.time()
    K = DRAWS[tier]
    cfgs = CONFIGS[tier]
    stimuli, traces = [], []
    with cf.ProcessPoolExecutor(max_workers=min(16, os.cpu_count() or 4)) as pool:
        for i, cfg in enumerate(cfgs):
            s0 = seed * 1000003 + i * 100003
            hist, errors = collect(cfg, K, s0, pool)
            args = {"vectors": cfg["vectors"], "n": cfg["n"], "mode": cfg["mode"], "K": K, "axis": cfg["axis"],
                    "layout": cfg["layout"], "seed0": s0}
            ev = {"call": "draws", "recv": "", "res": "", "out": "ok", "pre": {}, "post": {}, "args": args,
                  "obs": {"hist": [[[list(v) for v in o], c] for o, c in sorted(hist.items())], "errors": errors}}
            stimuli.append({"id": i + 1, "init": {}, "steps": [["draws", args]], "pal": ["draws", "plain"], "tag": "draws",
                            "judge": camp["judge"], "driver": "draws"})
            traces.append({"id": i + 1, "pal": ["draws", "plain"], "events": [ev]})
    t1 = time.time()
    j = P.judge(traces, wd, module=camp["judge"][0], cfg=camp["judge"][1], name="tr_" + camp["name"], njvm=1)
    print("  campaign %-28s configurations=%d draws=%d exec=%.1fs judge=%.1fs fails=%d"
          % (camp["name"], len(cfgs), K * len(cfgs), t1 - t0, time.time() - t1, len(j["fails"])), flush=True)
    summary = {"name": camp["name"], "behaviours_enumerated": len(cfgs), "behaviours_replayed": len(cfgs), "sampled": False,
               "gen": [], "gen_states": 0, "gen_transitions": 0, "traces": len(traces), "judge_states": j["states"],
               "fails": len(j["fails"]), "draws_per_configuration": K, "real_calls": K * len(cfgs)}
    return {"summary": summary, "stimuli": stimuli, "traces": traces, "judge": j}


def redo(stim, wd):
    """replay of one configuration (./check C12 --replay)"""
    from . import pipeline as P
    args = stim["steps"][0][1]
    cfg = {k: args[k] for k in ("vectors", "n", "mode", "axis", "layout")}
    with cf.ProcessPoolExecutor(max_workers=16) as pool:
        hist, errors = collect(cfg, args["K"], args["seed0"], pool)
    ev = {"call": "draws", "recv": "", "res": "", "out": "ok", "pre": {}, "post": {}, "args": args,
          "obs": {"hist": [[[list(v) for v in o], c] for o, c in sorted(hist.items())], "errors": errors}}
    tr = {"id": stim.get("id", 1), "pal": ["draws", "plain"], "events": [ev]}
    return tr
