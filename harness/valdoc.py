"""C15 support: concrete counterparts of the mutation grammar of BiomProps4.tla, and an
independent classifier of (mutated) BIOM files written against the two format documents
(doc/documentation/format_versions/biom-1.0.rst and biom-2.1.rst).  Uses only json / h5py /
numpy; shares no code with biom."""
import copy
import json

import h5py
import numpy as np

JSON_REQUIRED = ["id", "format", "format_url", "type", "generated_by", "date", "rows", "columns", "matrix_type",
                 "matrix_element_type", "shape", "data"]
NUMERIC_TYPES = {"int", "float"}


# ------------------------------------------------------------------------------ JSON
def mutate_json(doc, mut):
    d = doc
    kind, _, arg = mut.partition(":")
    if kind == "del":
        d.pop(arg, None)
    elif kind == "rename":
        if arg in d:
            d[arg + "_x"] = d.pop(arg)
    elif kind == "shape":
        i = 0 if arg.startswith("rows") else 1
        if isinstance(d.get("shape"), list) and len(d["shape"]) == 2:
            d["shape"][i] += 1 if arg.endswith("+1") else -1
    elif kind == "coord":
        data = d.get("data")
        shape = d.get("shape", [0, 0])
        if isinstance(data, list) and d.get("matrix_type") == "sparse":
            n, m = (shape + [0, 0])[:2] if isinstance(shape, list) else (0, 0)
            new = {"row_out": [n, 0, 1.0], "col_out": [0, m, 1.0], "negative": [-1, 0, 1.0], "index_text": ["0", 0, 1.0],
                   "value_text": [0, 0, "x"], "malformed": [0, 0], "col_index_float": [0, 0.5, 1.0],
                   "row_index_float": [0.5, 0, 1.0], "col_index_text": [0, "0", 1.0],
                   # JSON booleans: Python's bool is a subclass of int, so a lenient integer test lets them through
                   "row_index_bool": [True, 0, 1.0], "col_index_bool": [0, False, 1.0], "value_bool": [0, 0, True]}[arg]
            data.append(new)
    elif kind == "ids":
        rows, cols = d.get("rows"), d.get("columns")
        if arg == "dup_row" and isinstance(rows, list) and len(rows) >= 2:
            rows[-1]["id"] = rows[0]["id"]
        elif arg == "dup_col" and isinstance(cols, list) and len(cols) >= 2:
            cols[-1]["id"] = cols[0]["id"]
        elif arg == "blank_row" and isinstance(rows, list) and rows:
            rows[0]["id"] = ""
        elif arg == "blank_col" and isinstance(cols, list) and cols:
            cols[-1]["id"] = ""
        elif arg == "del_row_id" and isinstance(rows, list) and rows:
            rows[0].pop("id", None)
        elif arg == "del_col_md" and isinstance(cols, list) and cols:
            cols[0].pop("metadata", None)
    elif kind == "md":
        rows, cols = d.get("rows"), d.get("columns")
        if arg == "row_text" and isinstance(rows, list) and rows:
            rows[0]["metadata"] = "not an object"
        elif arg == "col_list" and isinstance(cols, list) and cols:
            cols[0]["metadata"] = ["a", "b"]
        elif arg == "row_number" and isinstance(rows, list) and rows:
            rows[-1]["metadata"] = 7
    elif kind == "type":
        if arg == "matrix_dense":
            d["matrix_type"] = "dense"          # the data stay sparse triples
        elif arg == "element_int":
            d["matrix_element_type"] = "int"     # the values stay floats
        elif arg == "element_unicode":
            d["matrix_element_type"] = "unicode"
        elif arg == "element_bogus":
            d["matrix_element_type"] = "complex"
    elif kind == "hdr":
        if arg == "bad_date":
            d["date"] = "yesterday"
        elif arg == "bad_format":
            d["format"] = "Some other format 9.9"
        elif arg == "bad_url":
            d["format_url"] = "http://example.org"
        elif arg == "bad_type":
            d["type"] = "Spreadsheet"
    else:
        raise ValueError(mut)
    return d


def _is_int(x):
    return isinstance(x, int) and not isinstance(x, bool)


def classify_json(text, pal, scale):
    """facts about a (possibly mutated) BIOM 1.0 document + the table it declares"""
    facts = {"parse_ok": False, "required_present": False, "shape_matches_ids": False, "coords_in_shape": False,
             "element_types_ok": False, "ids_nonempty_unique": False, "metadata_object_or_null": False,
             "numeric": False}
    declared = {"obs": [], "samp": [], "mat": []}
    try:
        d = json.loads(text)
    except Exception:
        return facts, declared
    if not isinstance(d, dict):
        return facts, declared
    facts["parse_ok"] = True
    rows, cols = d.get("rows"), d.get("columns")
    entries_ok = isinstance(rows, list) and isinstance(cols, list) and \
        all(isinstance(r, dict) and "id" in r and "metadata" in r for r in rows + cols)
    facts["required_present"] = all(k in d for k in JSON_REQUIRED) and entries_ok
    if not facts["required_present"]:
        return facts, declared
    shape = d["shape"]
    shape_ok = isinstance(shape, list) and len(shape) == 2 and all(_is_int(x) for x in shape)
    facts["shape_matches_ids"] = shape_ok and shape[0] == len(rows) and shape[1] == len(cols)
    ids_r = [r["id"] for r in rows]
    ids_c = [c["id"] for c in cols]
    facts["ids_nonempty_unique"] = all(isinstance(i, str) and i != "" for i in ids_r + ids_c) and \
        len(set(ids_r)) == len(ids_r) and len(set(ids_c)) == len(ids_c)
    facts["metadata_object_or_null"] = all(r["metadata"] is None or isinstance(r["metadata"], dict) for r in rows + cols)
    et = d["matrix_element_type"]
    mt = d["matrix_type"]
    facts["numeric"] = et in NUMERIC_TYPES
    pytype = {"int": int, "float": float, "unicode": str, "str": str}.get(et)
    data = d["data"]
    types_ok = pytype is not None and mt in ("sparse", "dense") and isinstance(data, list)
    coords_ok = True
    n, m = (shape if shape_ok else [len(rows), len(cols)])
    dense = [[0.0] * max(m, 0) for _ in range(max(n, 0))]
    if types_ok and mt == "sparse":
        for e in data:
            if not (isinstance(e, list) and len(e) == 3):
                types_ok = False
                continue
            r, c, v = e
            if not (_is_int(r) and _is_int(c)):
                types_ok = False
                continue
            if not isinstance(v, pytype) or isinstance(v, bool):
                types_ok = False
            if r < 0 or c < 0 or r >= n or c >= m:
                coords_ok = False
                continue
            if isinstance(v, (int, float)) and not isinstance(v, bool):
                dense[r][c] += v
    elif types_ok and mt == "dense":
        if len(data) != n or any(not isinstance(r, list) or len(r) != m for r in data):
            types_ok = False
        else:
            for i, r in enumerate(data):
                for j, v in enumerate(r):
                    if not isinstance(v, pytype) or isinstance(v, bool):
                        types_ok = False
                    elif isinstance(v, (int, float)):
                        dense[i][j] = v
    facts["element_types_ok"] = bool(types_ok)
    facts["coords_in_shape"] = bool(coords_ok)
    declared = {"obs": [pal.id_inv(i) if isinstance(i, str) else "NONTEXT" for i in ids_r],
                "samp": [pal.id_inv(i) if isinstance(i, str) else "NONTEXT" for i in ids_c],
                "mat": [[pal.val_inv(v, scale) for v in r] for r in dense]}
    return facts, declared


# ------------------------------------------------------------------------------ HDF5
def _rewrite(f, path, arr, dtype=None):
    attrs = dict(f[path].attrs)
    del f[path]
    ds = f.create_dataset(path, data=arr, dtype=dtype)
    for k, v in attrs.items():
        ds.attrs[k] = v


def mutate_hdf5(path, mut):
    kind, _, arg = mut.partition(":")
    vl = h5py.special_dtype(vlen=str)
    with h5py.File(path, "r+") as f:
        if kind == "delattr":
            if arg in f.attrs:
                del f.attrs[arg]
        elif kind in ("delgrp", "delds"):
            if arg in f:
                del f[arg]
        elif kind == "rename":
            if arg in f:
                f.move(arg, arg + "_x")
        elif kind == "shape":
            if "shape" in f.attrs:
                s = np.array(f.attrs["shape"]).copy()
                s[0 if arg.startswith("rows") else 1] += 1 if arg.endswith("+1") else -1
                f.attrs["shape"] = s
        elif kind == "coord":
            ax = "observation" if arg.startswith("obs") else "sample"
            p = ax + "/matrix/indices"
            if p in f and f[p].shape[0] > 0:
                a = f[p][:]
                inner = len(f["sample/ids"]) if ax == "observation" else len(f["observation/ids"])
                a[-1] = -1 if arg.endswith("negative") else inner
                _rewrite(f, p, a, dtype=np.int32)
        elif kind == "ids":
            ax = "observation" if arg.endswith("obs") else "sample"
            p = ax + "/ids"
            if p in f and f[p].shape[0] > 0:
                ids = [x.decode("utf8") if isinstance(x, bytes) else str(x) for x in f[p][:]]
                if arg.startswith("dup") and len(ids) >= 2:
                    ids[-1] = ids[0]
                elif arg.startswith("blank"):
                    ids[0] = ""
                _rewrite(f, p, np.array([i.encode("utf8") for i in ids], dtype=object), dtype=vl)
        elif kind == "type":
            if arg == "data_int" and "observation/matrix/data" in f:
                _rewrite(f, "observation/matrix/data", f["observation/matrix/data"][:].astype(np.int32), dtype=np.int32)
            elif arg == "indices_float" and "sample/matrix/indices" in f:
                _rewrite(f, "sample/matrix/indices", f["sample/matrix/indices"][:].astype(np.float64), dtype=np.float64)
            elif arg == "nnz_text":
                f.attrs["nnz"] = "many"
        elif kind == "md":
            grp = None
            for ax in ("observation", "sample"):
                if ax + "/metadata" in f and len(f[ax + "/metadata"]) > 0:
                    grp = ax + "/metadata"
                    break
            if grp is not None:
                name = sorted(f[grp].keys())[0]
                p = grp + "/" + name
                a = f[p][:]
                _rewrite(f, p, a[:-1] if len(a) > 1 else np.concatenate([a, a]))
        elif kind == "hdr":
            if arg == "bad_date":
                f.attrs["creation-date"] = "yesterday"
            elif arg == "bad_url":
                f.attrs["format-url"] = "http://example.org"
            elif arg == "bad_version":
                f.attrs["format-version"] = (9, 9)
            elif arg == "bad_type":
                f.attrs["type"] = "Spreadsheet"
        else:
            raise ValueError(mut)


H5_ATTRS = ["id", "type", "format-url", "format-version", "generated-by", "creation-date", "shape", "nnz"]
H5_GROUPS = ["observation", "observation/matrix", "observation/metadata", "observation/group-metadata",
             "sample", "sample/matrix", "sample/metadata", "sample/group-metadata"]
H5_DATASETS = ["observation/ids", "observation/matrix/data", "observation/matrix/indices", "observation/matrix/indptr",
               "sample/ids", "sample/matrix/data", "sample/matrix/indices", "sample/matrix/indptr"]


def classify_hdf5(path):
    facts = {"parse_ok": False, "required_present": False, "shape_matches_ids": False, "coords_in_shape": False,
             "element_types_ok": False, "ids_nonempty_unique": False, "metadata_object_or_null": True,
             "numeric": True}
    try:
        f = h5py.File(path, "r")
    except Exception:
        return facts
    with f:
        facts["parse_ok"] = True
        present = all(a in f.attrs for a in H5_ATTRS) and \
            all(g in f and isinstance(f[g], h5py.Group) for g in H5_GROUPS) and \
            all(d in f and isinstance(f[d], h5py.Dataset) for d in H5_DATASETS)
        facts["required_present"] = bool(present)
        if not present:
            return facts
        try:
            shape = [int(x) for x in np.asarray(f.attrs["shape"]).ravel()]
        except Exception:
            shape = []
        oids = [x.decode("utf8") if isinstance(x, bytes) else str(x) for x in f["observation/ids"][:]]
        sids = [x.decode("utf8") if isinstance(x, bytes) else str(x) for x in f["sample/ids"][:]]
        facts["shape_matches_ids"] = len(shape) == 2 and shape[0] == len(oids) and shape[1] == len(sids)
        facts["ids_nonempty_unique"] = all(i != "" for i in oids + sids) and len(set(oids)) == len(oids) and \
            len(set(sids)) == len(sids)
        n, m = len(oids), len(sids)
        types_ok = True
        coords_ok = True
        nnz_attr = f.attrs["nnz"]
        if not isinstance(nnz_attr, (int, np.integer)):
            types_ok = False
        for ax, nvec, ninner in (("observation", n, m), ("sample", m, n)):
            d, i, p = f[ax + "/matrix/data"], f[ax + "/matrix/indices"], f[ax + "/matrix/indptr"]
            if d.dtype != np.float64 or i.dtype != np.int32 or p.dtype != np.int32:
                types_ok = False
            idx = i[:]
            if idx.size and (idx.min() < 0 or idx.max() >= ninner):
                coords_ok = False
        facts["element_types_ok"] = types_ok
        facts["coords_in_shape"] = coords_ok
    return facts
