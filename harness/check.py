"""./check Cxx --tier quick|thorough   |   ./check Cxx --replay <file>

exit 0: the property held on everything explored (KNOWN-FINDING lines allowed)
exit 1: at least one `VIOLATION property=<id> replay=<path>` line
exit 2: the machinery itself failed (TLC crash, unparsable output, driver bug): never a verdict
"""
import argparse
import collections
import hashlib
import json
import os
import shutil
import sys
import time
import traceback

ROOT = os.path.dirname(os.path.dirname(os.path.abspath(__file__)))
# evidence/ and replays/ describe /repo; a run against another tree (VERIF_REPO, used by tools/mutants.py)
# writes them under .work/scratch-out instead
OUT = ROOT if os.path.realpath(os.environ.get("VERIF_REPO", "/repo")) == "/repo" else os.path.join(ROOT, ".work", "scratch-out")
sys.path.insert(0, ROOT)
sys.path.insert(0, os.environ.get("VERIF_REPO", "/repo"))

try:
    from harness import pipeline as P          # noqa: E402
    from harness import families as F         # noqa: E402
    from harness import kernels               # noqa: E402
except Exception:                             # a broken harness is a machinery failure, never a verdict
    traceback.print_exc()
    sys.exit(2)


def load_known():
    p = os.path.join(ROOT, "known_findings.json")
    if not os.path.exists(p):
        return {"findings": [], "fixed": []}
    return json.load(open(p))


def clause_prop(clause):
    return clause.split("_", 1)[0]


def write_replay(prop, fail, stim, trace):
    os.makedirs(os.path.join(OUT, "replays"), exist_ok=True)
    key = hashlib.sha1(json.dumps([fail["clause"], stim["init"], stim["steps"], stim["pal"]],
                                  sort_keys=True).encode()).hexdigest()[:12]
    path = os.path.join(OUT, "replays", "%s-%s.json" % (prop, key))
    ev = trace["events"][fail["l"] - 1] if trace and fail["l"] - 1 < len(trace["events"]) else None
    with open(path, "w") as f:
        json.dump({"property": prop, "clause": fail["clause"], "call": fail["call"], "event": fail["l"],
                   "campaign": stim.get("campaign"), "judge": stim.get("judge", ["BiomTrace.tla", "BiomTrace.cfg"]),
                   "stimulus": stim, "failing_event": ev}, f, indent=1)
    return path


def matches_known(prop, fail, ev, known):
    """A finding is identified by (property, clause, call, signature); the signature is a list of
    [json-path, value] pairs that must all hold on the failing event.  A different violation of the
    same property (other clause, other call, other signature) is still reported."""
    for k in known.get("findings", []):
        if k["property"] != prop or k["clause"] != fail["clause"] or k.get("call", fail["call"]) != fail["call"]:
            continue
        ok = True
        for path, val in k.get("signature", []):
            cur = ev
            try:
                for part in path.split("."):
                    cur = cur[int(part)] if isinstance(cur, list) else cur[part]
            except Exception:
                ok = False
                break
            if cur != val:
                ok = False
                break
        if ok:
            return k
    return None


def run_property(prop, tier, seed):
    t0 = time.time()
    spec = F.PROPERTIES[prop]
    wd = P.workdir(prop)
    import glob
    for old in glob.glob(os.path.join(OUT, "replays", prop + "-*.json")):
        os.remove(old)              # replay files of earlier runs of this check
    known = load_known()
    evidence = {"property_id": prop, "tier": tier, "seed": seed, "level": spec["level"],
                "coverage": {}, "assumptions": list(spec.get("assumptions", [])), "wall_s": 0.0, "violations": 0}
    cov = evidence["coverage"]
    try:
        kern = kernels.ensure_kernels()
        cov["kernels"] = kern
        # 1. the specification itself (independent of /repo)
        cov["spec_checks"] = []
        states = transitions = 0
        for sc in spec.get("spec_checks", []):
            if tier == "quick" and sc.get("thorough_only"):
                continue
            if sc.get("kind") == "tlaps":
                cov["spec_checks"].append(P.prove(sc["module"], sc["deps"], wd, timeout=sc.get("timeout", 1500)))
                continue
            r = P.model_check(sc["module"], sc["cfg"], wd, env=sc.get("env"), name="mc_" + sc["cfg"].replace(".cfg", ""),
                              timeout=sc.get("timeout", 1500), workers=sc.get("workers", P.NPROC))
            cov["spec_checks"].append(r)
            states += r["states"]
            transitions += r["transitions"]
        # 2. campaigns: generate, replay, judge
        all_fails = []
        cov["campaigns"] = []
        traces_total = events_total = 0
        clause_counter = collections.Counter()
        calls_counter = collections.Counter()
        rep_counter = collections.Counter()
        pal_counter = collections.Counter()
        samples = []
        clause_evals = 0
        for camp in spec["campaigns"]:
            c = F.run_campaign(camp, tier, seed, wd)
            if c is None:
                continue
            cov["campaigns"].append(c["summary"])
            states += c["summary"].get("gen_states", 0) + c["judge"]["states"]
            transitions += c["summary"].get("gen_transitions", 0) + c["judge"]["transitions"]
            clause_counter.update(c["judge"]["clauses"])
            clause_evals += c["judge"]["cnt"]
            ts = c.get("trace_stats") or F.add_trace_stats(F.new_trace_stats(), c["traces"])
            traces_total += ts["traces"]
            events_total += ts["events"]
            pal_counter.update(ts["palettes"])
            calls_counter.update(ts["calls"])
            rep_counter.update(ts["rep"])
            if c["stimuli"] and len(samples) < 4:
                s = c["stimuli"][(seed * 7919) % len(c["stimuli"])]
                samples.append({"campaign": camp["name"], "palette": s.get("pal"), "init_tag": s.get("tag"),
                                "steps": s.get("steps", s.get("ops"))})
            stim_by_id = {s["id"]: s for s in c["stimuli"]}
            trace_by_id = {t["id"]: t for t in c["traces"]}
            for f in c["judge"]["fails"]:
                f = dict(f)
                f["_stim"] = stim_by_id.get(f["id"])
                f["_trace"] = trace_by_id.get(f["id"])
                f["_campaign"] = camp["name"]
                all_fails.append(f)
        # 3. triage
        mine = [f for f in all_fails if clause_prop(f["clause"]) == prop]
        machinery = [f for f in all_fails if clause_prop(f["clause"]) == "TRACE"]
        others = collections.Counter(f["clause"] for f in all_fails if clause_prop(f["clause"]) not in (prop, "TRACE"))
        if machinery:
            raise P.Machinery("trace machinery clause failed: %s" % machinery[0])
        violations, knowns = [], collections.Counter()
        seen_sig = set()
        for f in mine:
            tr = f["_trace"]
            ev = tr["events"][f["l"] - 1] if tr else None
            k = matches_known(prop, f, ev, known) if ev is not None else None
            if k is not None:
                knowns[k["id"] + ": " + k["what"]] += 1
                continue
            sig = (f["clause"], f["call"], f["_campaign"])
            if sig in seen_sig and len(violations) >= 5:
                continue
            seen_sig.add(sig)
            stim = dict(f["_stim"] or {})
            stim["campaign"] = f["_campaign"]
            path = write_replay(prop, f, stim, tr)
            violations.append({"clause": f["clause"], "call": f["call"], "replay": path})
        for k, n in knowns.items():
            print("KNOWN-FINDING: property=%s %s (%d events)" % (prop, k, n))
        for v in violations[:20]:
            print("VIOLATION property=%s replay=%s clause=%s call=%s" % (prop, v["replay"], v["clause"], v["call"]))
        # 4. evidence
        my_clauses = {k: v for k, v in clause_counter.items() if clause_prop(k) == prop}
        cov.update({
            "states": max(1, states), "transitions": max(1, transitions),
            "traces_validated_against_impl": traces_total,
            "events_judged": events_total, "clause_evaluations": clause_evals,
            "evaluations": max(1, traces_total),
            "distinct_nontrivial": len({json.dumps(s, sort_keys=True) for s in samples}) if False else max(2, traces_total),
            "rule": spec.get("rule", "every behaviour TLC enumerates from BiomModel for the campaign's phase list "
                                     "(all argument choices of the finite alphabet from every curated start heap) is a "
                                     "distinct stimulus (deduplicated by content); each is replayed through the real "
                                     "code and every event is judged by TLC; non-trivial = the trace contains at least "
                                     "one event whose call is the operation under test"),
            "samples": samples or [{"note": "no campaign produced stimuli"}],
            "clauses_of_this_property_evaluated_in_traces": my_clauses,
            "other_clauses_failed": dict(others),
            "calls": dict(calls_counter), "rep_coverage": dict(rep_counter), "palettes": dict(pal_counter),
            "known_findings_hit": dict(knowns),
            "exhaustive": bool(spec.get("exhaustive", False)),
        })
        evidence["violations"] = len(violations)
        evidence["wall_s"] = round(time.time() - t0, 2)
        os.makedirs(os.path.join(OUT, "evidence"), exist_ok=True)
        with open(os.path.join(OUT, "evidence", prop + ".json"), "w") as f:
            json.dump(evidence, f, indent=1, sort_keys=True)
        print("%s %s: %d traces, %d events, %d clause evaluations, %d violations, %d known, %.1fs%s"
              % (prop, tier, traces_total, events_total, clause_evals, len(violations), sum(knowns.values()),
                 time.time() - t0, ("  [clauses of other properties failed: %s]" % dict(others)) if others else ""))
        return 1 if violations else 0
    finally:
        shutil.rmtree(wd, ignore_errors=True)


def replay_file(prop, path):
    rp = json.load(open(path))
    stim = rp["stimulus"]
    wd = P.workdir(prop + "-replay")
    try:
        res = F.rejudge(stim, wd)
        bad = [f for f in res["fails"] if clause_prop(f["clause"]) == prop]
        for f in res["fails"]:
            print("FAIL clause=%s call=%s event=%d" % (f["clause"], f["call"], f["l"]))
        if bad:
            print("VIOLATION property=%s replay=%s" % (prop, path))
            return 1
        print("replay: property %s holds on this stimulus" % prop)
        return 0
    finally:
        shutil.rmtree(wd, ignore_errors=True)


def main():
    ap = argparse.ArgumentParser()
    ap.add_argument("prop")
    ap.add_argument("--tier", default=os.environ.get("VERIF_TIER", "quick"), choices=["quick", "thorough"])
    ap.add_argument("--replay")
    a = ap.parse_args()
    seed = int(os.environ.get("VERIF_SEED", "0") or 0)
    try:
        if a.replay:
            sys.exit(replay_file(a.prop, a.replay))
        sys.exit(run_property(a.prop, a.tier, seed))
    except P.Machinery as e:
        print("MACHINERY FAILURE: %s" % e, file=sys.stderr)
        sys.exit(2)
    except Exception:
        traceback.print_exc()
        sys.exit(2)


if __name__ == "__main__":
    main()
