"""Recorder behind the guarded hook in /repo/biom/__init__.py.

With BIOM_FORMAT_VERIF=1 and BIOM_FORMAT_VERIF_RECORDER=harness.recorder the hook calls
install(), which wraps the public mutating / table-producing methods of biom.Table.  Every
OUTERMOST call (a depth counter skips calls the library makes on itself) appends one event to
$BIOM_FORMAT_VERIF_TRACE: the call, its arguments in the abstract form of BiomProps, the
projected abstract state of the receiver and of every table argument before and after, and of
the result.  Events are written in `finally`, so the error path is recorded too.  Tables larger
than 8 x 8 are skipped (recorded by name only).  The recorder never changes what a call does.

The traces are judged by spec/BiomRecTrace.tla (only clauses that need nothing but the states:
coherence, frame rule, the data-moving clauses of each call).
"""
import copy
import functools
import json
import os
import threading

from . import abstraction as A

_depth = threading.local()
_out = None
_seq = [0]
MAXDIM = 8
PAL = A.Palette("plain")


def _small(t):
    try:
        return t.shape[0] <= MAXDIM and t.shape[1] <= MAXDIM and len(t.ids()) <= MAXDIM and \
            len(t.ids(axis="observation")) <= MAXDIM
    except Exception:
        return False


def _proj(t):
    try:
        return A.project(t, PAL)
    except Exception:
        return None


def _ids(x):
    try:
        return [str(i) for i in x]
    except Exception:
        return None


def _abstract_args(name, args, kwargs, Table):
    """arguments in the vocabulary of the clauses; None = this call shape is not judged"""
    def get(pos, key, default=None):
        if key in kwargs:
            return kwargs[key]
        if pos < len(args):
            return args[pos]
        return default
    if name == "sort_order":
        order = _ids(get(0, "order"))
        return None if order is None else {"order": order, "axis": get(1, "axis", "sample"), "form": "list"}
    if name == "filter":
        k = get(0, "ids_to_keep")
        if callable(k):          # predicate form: only the frame rule / identity / coherence clauses are judged
            return {"raw": True, "axis": get(1, "axis", "sample"), "inplace": bool(get(3, "inplace", True))}
        ids = _ids(k)
        return None if ids is None else {"mode": "ids", "ids": ids, "form": "list", "axis": get(1, "axis", "sample"),
                                         "invert": bool(get(2, "invert", False)), "inplace": bool(get(3, "inplace", True)),
                                         "pred": "", "mdkey": "", "mdval": ""}
    if name == "remove_empty":
        return {"axis": get(0, "axis", "whole"), "inplace": bool(get(1, "inplace", True))}
    if name == "head":
        return {"n": int(get(0, "n", 5)), "m": int(get(1, "m", 5))}
    if name in ("transpose", "copy"):
        return {"none": True}
    if name == "update_ids":
        m = get(0, "id_map")
        if not isinstance(m, dict):
            return None
        return {"map": [[str(k), str(v)] for k, v in m.items()], "axis": get(1, "axis", "sample"),
                "strict": bool(get(2, "strict", True)), "inplace": bool(get(3, "inplace", True))}
    if name == "add_metadata":
        md = get(0, "md")
        if not isinstance(md, dict) or not all(isinstance(v, dict) for v in md.values()):
            return None
        return {"md": [[str(i), A.md_row_abstract(row, PAL)] for i, row in md.items()], "axis": get(1, "axis", "sample")}
    if name == "del_metadata":
        keys = get(0, "keys")
        return {"keys": [str(k) for k in keys] if keys is not None else [], "allkeys": keys is None,
                "axis": get(1, "axis", "whole")}
    if name == "merge":
        oth = get(0, "other")
        n = 1 if isinstance(oth, Table) else (len(oth) if isinstance(oth, (list, tuple)) else 0)
        if n not in (1, 2):
            return {"raw": True}
        from biom.table import prefer_self
        smf, omf = get(3, "sample_metadata_f", prefer_self), get(4, "observation_metadata_f", prefer_self)
        return {"others": list("bc"[:n]), "sample": get(1, "sample", "union"), "observation": get(2, "observation", "union"),
                "smf": "default" if smf is prefer_self else "other", "omf": "default" if omf is prefer_self else "other"}
    if name == "concat":
        oth = get(0, "others")
        n = 1 if isinstance(oth, Table) else (len(oth) if isinstance(oth, (list, tuple)) else 0)
        if n not in (1, 2):
            return {"raw": True}
        return {"others": list("bc"[:n]), "axis": get(1, "axis", "sample"), "via": "method"}
    if name == "align_to_dataframe":
        index = _ids(getattr(get(0, "metadata"), "index", None))
        return None if index is None else {"index": index, "axis": get(1, "axis", "sample")}
    if name in ("align_to", "sort", "subsample", "collapse"):
        return {"raw": True}
    if name == "transform":
        return {"raw": True, "inplace": bool(get(2, "inplace", True))}
    if name == "norm":
        return {"raw": True, "inplace": bool(get(1, "inplace", True))}
    if name == "pa":
        return {"raw": True, "inplace": bool(get(0, "inplace", True))}
    return None


def _wrap(name, fn, Table):
    @functools.wraps(fn)
    def wrapper(self, *args, **kwargs):
        d = getattr(_depth, "n", 0)
        if d > 0 or _out is None:
            return fn(self, *args, **kwargs)
        _depth.n = d + 1
        ev = None
        try:
            try:
                others = [a for a in list(args) + list(kwargs.values()) if isinstance(a, Table)]
                if len(args) and isinstance(args[0], (list, tuple)) and all(isinstance(x, Table) for x in args[0]):
                    others = list(args[0])
                small = _small(self) and all(_small(o) for o in others) and len(others) <= 2
                aargs = _abstract_args(name, args, kwargs, Table) if small else None
                if aargs is not None:
                    pre = {"a": _proj(self)}
                    for k, o in zip("bc", others):
                        pre[k] = _proj(o)
                    ev = {"call": CALL_NAMES.get(name, name), "recv": "a", "res": "r", "args": aargs, "pre": pre,
                          "others": list("bc"[:len(others)])}
            except Exception:
                ev = None
            out, ret = "ok", None
            try:
                ret = fn(self, *args, **kwargs)
                return ret
            except BaseException as e:
                out = "table_error" if type(e).__name__ in ("TableException", "UnknownIDError", "UnknownAxisError") \
                    else "error:" + type(e).__name__
                raise
            finally:
                if ev is not None:
                    try:
                        post = {"a": _proj(self)}
                        for k, o in zip("bc", others):
                            post[k] = _proj(o)
                        extra_obs = {}
                        if name == "align_to_dataframe" and isinstance(ret, tuple) and len(ret) == 2:
                            # (table, frame): the table is the result, the frame's index is an observation
                            extra_obs["frame_index"] = _ids(ret[1].index)
                            ret = ret[0]
                        if isinstance(ret, Table) and ret is not self and _small(ret):
                            post["r"] = _proj(ret)
                        if all(v is not None for v in list(ev["pre"].values()) + list(post.values())
                               + list(extra_obs.values())):
                            ev.update({"out": out, "post": post,
                                       "obs": dict({"ret_is_recv": ret is self, "returned_table": isinstance(ret, Table)},
                                                   **extra_obs)})
                            _seq[0] += 1
                            ev["seq"] = _seq[0]
                            ev["pid"] = os.getpid()
                            _out.write(json.dumps(ev) + "\n")
                            _out.flush()
                    except Exception:
                        pass
        finally:
            _depth.n = d
    wrapper.__verif_wrapped__ = True
    return wrapper


CALL_NAMES = {"align_to_dataframe": "align_df"}      # method name -> name of the model's action
METHODS = ["align_to_dataframe", "filter", "remove_empty", "head", "sort_order", "sort", "transpose", "copy", "update_ids", "add_metadata",
           "del_metadata", "merge", "concat", "align_to", "transform", "norm", "pa", "subsample", "collapse"]


def install(biom_module=None):
    """called by the hook; idempotent"""
    global _out
    path = os.environ.get("BIOM_FORMAT_VERIF_TRACE")
    if not path:
        return
    from biom.table import Table
    if getattr(Table, "__verif_installed__", False):
        return
    _out = open(path, "a", encoding="utf-8")
    for name in METHODS:
        fn = Table.__dict__.get(name)
        if fn is not None and callable(fn) and not getattr(fn, "__verif_wrapped__", False):
            setattr(Table, name, _wrap(name, fn, Table))
    Table.__verif_installed__ = True
