"""Abstraction function (implementation object -> abstract TLA+ state) and
concretisation (abstract stimulus -> implementation input) through palettes.

Nothing in here knows what any table operation is supposed to do: it only
translates data.  Abstract values are exact rationals [n, d]; an observed
datum that is not the image of an abstract value becomes [k, 0] ("unknown
datum number k", interned per trace so that equal data get equal k).
Abstract IDs / metadata strings are ASCII tokens; an observed string that is
not the image of a token becomes "UNK<k>".
"""
import copy
import json
import math
from fractions import Fraction

import numpy as np

MAXINT = 1 << 15          # TLC integers are 32 bit; keep products small


class Palette:
    """Injective maps token -> concrete datum, and their inverses."""

    def __init__(self, name="plain"):
        self.name = name
        self.scale = 1.0            # value v -> v * scale (power of two: exact)
        self.special = {}           # Fraction -> float, overrides scale
        self.idmap = None           # callable token -> str, or None for identity
        self.strmap = None
        self.tolerant = False       # nearest small rational within 1e-12 (division results)
        self._inv_special = {}
        self._ids = {}              # concrete -> token (filled on use)
        self._strs = {}
        self._unk = {}              # interned unknown data
        if name != "plain":
            PALETTES[name](self)
        self._inv_special = {self._bits(v): k for k, v in self.special.items()}

    # ---------------------------------------------------------------- ids
    def id(self, tok):
        if "~" in tok:
            # "<id>~<suffix>": the concrete image of <id> extended by <suffix> (an unknown ID that has
            # a known ID as a prefix)
            base, suf = tok.split("~", 1)
            c = self.id(base) + suf
            self._ids[c] = tok
            return c
        c = tok if self.idmap is None else self.idmap(tok)
        self._ids[c] = tok
        return c

    def id_inv(self, c):
        if isinstance(c, bytes):
            return self._unknown(("bytes", c), "UNK")
        c = str(c)
        if c in self._ids:
            return self._ids[c]
        if self.idmap is None:
            return c
        return self._unknown(("id", c), "UNK")

    # ------------------------------------------------------- metadata text
    def s(self, tok):
        c = tok if self.strmap is None else self.strmap(tok)
        self._strs[c] = tok
        return c

    def s_inv(self, c):
        if c in self._strs:
            return self._strs[c]
        if self.strmap is None:
            return c
        return self._unknown(("s", c), "UNK")

    RESERVED_KEYS = ("taxonomy", "Taxonomy", "collapsed_ids", "KEGG_Pathways", "Path")

    def key(self, tok):
        return tok if tok in self.RESERVED_KEYS else self.s(tok)

    def key_inv(self, c):
        return c if c in self.RESERVED_KEYS else self.s_inv(c)

    # -------------------------------------------------------------- values
    @staticmethod
    def _bits(x):
        return np.float64(x).tobytes()

    def val(self, frac):
        f = Fraction(frac[0], frac[1])
        if f in self.special:
            return self.special[f]
        return float(f) * self.scale

    def val_inv(self, x, scale=None):
        scale = self.scale if scale is None else scale
        try:
            x = float(x)
        except Exception:
            return [self._unknown(("v", repr(x)), None), 0]
        b = self._bits(x)
        if b in self._inv_special:
            f = self._inv_special[b]
            return [f.numerator, f.denominator]
        if x == 0.0:
            return [0, 1]
        if math.isfinite(x):
            f = Fraction(x) / Fraction(scale)
            if abs(f.numerator) < MAXINT and f.denominator < MAXINT:
                return [f.numerator, f.denominator]
            if self.tolerant:
                g = f.limit_denominator(4096)
                if abs(g.numerator) < MAXINT and abs(float(g) - float(f)) <= 1e-12 * abs(float(f)):
                    return [g.numerator, g.denominator]
        return [self._unknown(("v", b), None), 0]

    def _unknown(self, key, prefix):
        if key not in self._unk:
            self._unk[key] = len(self._unk) + 1
        k = self._unk[key]
        return k if prefix is None else "%s%d" % (prefix, k)


# ------------------------------------------------------------------ palettes
def _pal_unicode(p):
    odd = {"1": "ö", "2": "日本", "3": " /x y", "4": "\U0001F600!", "5": "'q\"", "6": "\\b"}

    def idmap(tok):
        # different lengths, non-ASCII, spaces, slash, punctuation; injective
        return tok[0].upper() + odd.get(tok[-1], "z") * (1 + (ord(tok[-1]) % 3)) + tok
    p.idmap = idmap
    p.strmap = lambda tok: "é" + tok + " \"q\" \\ /" if tok not in ("", ) else tok


def _pal_ctrl(p):
    # control characters (JSON must escape them): tab, newline, bell, CR LF, an inner NUL, line separator
    odd = {"1": "\t", "2": "\n", "3": "\x07", "4": "\r\n", "5": "\x00", "6": "\u2028", "7": "\x1f", "8": "\x7f"}
    p.idmap = lambda tok: tok[0] + odd.get(tok[-1], "\x0b") + tok
    p.strmap = lambda tok: "\x01" + tok + "\n\t\u2028\"" if tok not in ("", ) else tok


def _pal_numeric_ids(p):
    table = {"o1": "10", "o2": "9", "o3": "1e5", "o4": "007", "o5": "3.5", "o6": "-2",
             "s1": "010", "s2": "2", "s3": "1.0", "s4": "0x1", "s5": "33", "s6": "4",
             "zz": "99"}
    p.idmap = lambda tok: table.get(tok, "n_" + tok)


def _pal_case_ids(p):
    # IDs that differ only in case / trailing characters, and in length
    table = {"o1": "a", "o2": "A", "o3": "a ", "o4": "aa", "o5": "a.", "o6": "A_",
             "s1": "S", "s2": "s", "s3": "S.1", "s4": "S.10", "s5": "ss", "s6": "sS",
             "zz": "Z"}
    p.idmap = lambda tok: table.get(tok, "c_" + tok)


def _pal_long_ids(p):
    p.idmap = lambda tok: tok + "-" + ("L" * (40 * (1 + ord(tok[-1]) % 4)))


def _pal_scale_up(p):
    p.scale = float(2 ** 40)


def _pal_scale_down(p):
    p.scale = float(2 ** -30)


def _pal_scale_tiny(p):
    # subnormal range: totals of a few units are below 1e-308 (reciprocals overflow, quotients do not)
    p.scale = float(2 ** -1040)


def _pal_trail(p):
    # IDs and metadata text that END with a backslash (the last character before the closing quote in JSON
    # text is then an escaped backslash), and carry brackets and a quote inside
    p.idmap = lambda tok: "[" + tok + "]\"{" + "\\"
    p.strmap = lambda tok: tok + "}]\\" if tok not in ("", ) else tok


def _pal_adversarial(p):
    # exact images for a handful of abstract values; data-moving calls only
    p.special = {Fraction(1): 1e-7, Fraction(2): float(2 ** 53 + 2), Fraction(3): 0.1 + 0.2,
                 Fraction(4): 1234567.1234567, Fraction(5): 0.7, Fraction(6): 0.2,
                 Fraction(7): 1e22, Fraction(8): 5e-324, Fraction(9): 1e300,
                 Fraction(-1): -1e-7, Fraction(-2): -2.5e-9, Fraction(-3): -3.0000000000000004,
                 Fraction(1, 2): 0.6, Fraction(1, 4): 1.0000000000000002, Fraction(10): 1e-5,
                 Fraction(20): 123456789.125}


PALETTES = {"scale_tiny": _pal_scale_tiny, "trail": _pal_trail, "ctrl": _pal_ctrl, "unicode": _pal_unicode, "numeric_ids": _pal_numeric_ids, "case_ids": _pal_case_ids,
            "long_ids": _pal_long_ids, "scale_up": _pal_scale_up, "scale_down": _pal_scale_down,
            "adversarial": _pal_adversarial}
ID_PALETTES = ["plain", "unicode", "numeric_ids", "case_ids", "long_ids"]
MOVE_VALUE_PALETTES = ["plain", "scale_up", "scale_down", "adversarial"]
SUM_VALUE_PALETTES = ["plain", "scale_up", "scale_down"]


def make_palette(idp="plain", valp="plain"):
    p = Palette(idp)
    if valp != "plain":
        q = Palette(valp)
        p.scale, p.special, p._inv_special = q.scale, q.special, q._inv_special
    p.name = "%s+%s" % (idp, valp)
    return p


# ------------------------------------------------------------------ metadata
def md_row_concrete(row, pal):
    """abstract row [[key, kind, vals], ...] -> dict (or None for an absent row)"""
    if row is None:
        return None
    d = {}
    for key, kind, vals in row:
        d[pal.key(key)] = md_val_concrete(kind, vals, pal, key)
    return d


def md_val_concrete(kind, vals, pal, key=None):
    if key in ID_VALUED_KEYS and kind == "l":
        return [pal.id(v) for v in vals]
    if kind == "s":
        return pal.s(vals[0])
    if kind == "l":
        return [pal.s(v) for v in vals]
    if kind == "i":
        return int(vals[0])
    if kind == "f":
        return float(vals[0])
    if kind == "b":
        return vals[0] == "true"
    if kind == "z":
        return None
    if kind == "j":
        return json.loads(vals[0])
    raise ValueError(kind)


ID_VALUED_KEYS = ("collapsed_ids", "Path")      # categories whose list entries are IDs / labels


def md_val_abstract(v, pal, key=None):
    if key in ID_VALUED_KEYS and isinstance(v, (list, tuple, np.ndarray)) and all(isinstance(x, str) for x in v):
        return "l", [pal.id_inv(str(x)) for x in v]
    if v is None:
        return "z", []
    if isinstance(v, (bool, np.bool_)):
        return "b", ["true" if v else "false"]
    if isinstance(v, (int, np.integer)):
        return "i", [str(int(v))]
    if isinstance(v, (float, np.floating)):
        f = float(v)
        r = repr(f)
        return "f", [r[:-2] if r.endswith(".0") else r]       # canonical text: 7.0 -> "7"
    if isinstance(v, str):
        return "s", [pal.s_inv(str(v))]
    if isinstance(v, (list, tuple, np.ndarray)):
        vs = list(v)
        if all(isinstance(x, str) for x in vs):
            return "l", [pal.s_inv(str(x)) for x in vs]
        if vs and all(isinstance(x, (list, tuple)) and all(isinstance(y, str) for y in x) for x in vs):
            flat = []                       # list of lists of text: flattened with the separator token "|"
            for i, x in enumerate(vs):
                if i:
                    flat.append("|")
                flat.extend(pal.s_inv(str(y)) for y in x)
            return "p", flat
        try:
            return "j", [json.dumps(_plain(vs), sort_keys=True)]
        except Exception:
            return "u", [repr(v)]
    if isinstance(v, bytes):
        return "u", ["bytes:" + repr(v)]
    try:
        return "j", [json.dumps(_plain(v), sort_keys=True)]
    except Exception:
        return "u", [repr(v)]


def _plain(v):
    if isinstance(v, (list, tuple, np.ndarray)):
        return [_plain(x) for x in v]
    if isinstance(v, dict):
        return {str(k): _plain(x) for k, x in v.items()}
    if isinstance(v, np.generic):
        return v.item()
    return v


def md_row_abstract(d, pal):
    if d is None:
        return []
    out = []
    for k, v in d.items():
        kind, vals = md_val_abstract(v, pal, k)
        key = pal.key_inv(k) if isinstance(k, str) else "UNKKEY"
        out.append([key, kind, vals])
    out.sort(key=lambda e: e[0])
    return out


def md_abstract(md, pal):
    if md is None:
        return {"has": False, "rows": []}
    return {"has": True, "rows": [md_row_abstract(r, pal) for r in md]}


# table id and type: header strings.  The id goes through the string map of the palette (the HDF5
# placeholder is kept as it is); the type token "TyQ" stands for a type text with quotes and a backslash.
ODD_TYPE = 'Ty"pe\\ x'


def tid_concrete(pal, tok):
    return pal.s(tok) if tok else tok


def tid_abstract(pal, c):
    if c is None:
        return ""
    c = str(c)
    return c if c in ("", "No Table ID") else pal.s_inv(c)


def type_concrete(tok):
    return ODD_TYPE if tok == "TyQ" else tok


def type_abstract(c):
    if c is None:
        return ""
    return "TyQ" if str(c) == ODD_TYPE else str(c)


# ------------------------------------------------------------------ tables
def rep_of(t):
    """Hidden representation of the object under test, read WITHOUT touching it: no scipy method
    is called on the live matrix (count_nonzero(), for one, sorts indices in place)."""
    m = t.matrix_data
    fmt = m.getformat()
    srt = True
    stored = true_nnz = 0
    if fmt in ("csr", "csc"):
        indptr, indices, data = np.asarray(m.indptr), np.asarray(m.indices), np.asarray(m.data)
        for k in range(len(indptr) - 1):
            seg = indices[indptr[k]:indptr[k + 1]]
            if len(seg) > 1 and np.any(seg[1:] <= seg[:-1]):
                srt = False
                break
        stored = int(len(data))
        true_nnz = int(np.count_nonzero(data))
    elif fmt == "coo":
        stored = int(len(m.data))
        true_nnz = int(np.count_nonzero(m.data))
    return {"fmt": fmt, "sorted": srt, "stored_zeros": stored - true_nnz,
            "idw": [str(t.ids(axis="observation").dtype), str(t.ids().dtype)]}


def project(t, pal, with_lookups=True, scale=None):
    """Abstract state of a biom.Table.  Works on a deep copy so that observing
    never perturbs the hidden representation of the object under test."""
    rep = rep_of(t)
    tt = copy.deepcopy(t)
    obs_c = [x for x in tt.ids(axis="observation")]
    samp_c = [x for x in tt.ids()]
    obs = [pal.id_inv(x) for x in obs_c]
    samp = [pal.id_inv(x) for x in samp_c]
    dense = np.asarray(tt.matrix_data.toarray())
    shape = [int(dense.shape[0]), int(dense.shape[1])]
    if dense.size == 0 and (len(obs) == 0 or len(samp) == 0):
        # an empty axis: there are no cells, whatever shape the matrix object reports
        dense = np.zeros((len(obs), len(samp)))
    mat = [[pal.val_inv(x, scale) for x in row] for row in dense]
    omd_raw = tt.metadata(axis="observation")
    smd_raw = tt.metadata(axis="sample")
    out = {"obs": obs, "samp": samp, "mat": mat,
           "omd": md_abstract(omd_raw, pal), "smd": md_abstract(smd_raw, pal),
           "type": type_abstract(tt.type),
           "tid": tid_abstract(pal, tt.table_id),
           "rep": rep}
    if with_lookups:
        out["lk"] = lookups(tt, obs_c, samp_c, omd_raw, smd_raw, pal, shape)
    return out


def lookups(tt, obs_c, samp_c, omd_raw, smd_raw, pal, dense_shape):
    """What the table's own lookup API answers (compared with positions in TLA+)."""
    def idx(ids, axis):
        res = []
        for i in ids:
            try:
                res.append(int(tt.index(i, axis)) + 1)
            except Exception:
                res.append(0)
        return res

    def by_id(ids, axis, has):
        if not has:
            return []
        res = []
        for i in ids:
            try:
                res.append(md_row_abstract(tt.metadata(i, axis), pal))
            except Exception:
                res.append([["LOOKUP_FAILED", "u", []]])
        return res
    exists_ok = all(bool(tt.exists(i, "observation")) for i in obs_c) and \
        all(bool(tt.exists(i, "sample")) for i in samp_c)
    probe = "\x00no-such-id\x00"
    unknown_found = bool(tt.exists(probe, "observation")) or bool(tt.exists(probe, "sample"))
    for ax in ("observation", "sample"):
        try:
            tt.index(probe, ax)
            unknown_found = True
        except Exception:
            pass
    shp = [int(tt.shape[0]), int(tt.shape[1])]
    if shp != dense_shape:
        shp = [-1, -1]
    return {"shape": shp, "obs": idx(obs_c, "observation"), "samp": idx(samp_c, "sample"),
            "exists_ok": exists_ok, "unknown_found": unknown_found,
            "omd_by_id": by_id(obs_c, "observation", omd_raw is not None),
            "smd_by_id": by_id(samp_c, "sample", smd_raw is not None)}


def build_table(spec, pal):
    """Construct a real biom.Table from an abstract table spec.
    spec: {obs, samp, mat, omd:{has,rows}, smd, type, tid, build}"""
    import scipy.sparse as sp
    from biom import Table
    obs = [pal.id(x) for x in spec["obs"]]
    samp = [pal.id(x) for x in spec["samp"]]
    n, m = len(obs), len(samp)
    dense = np.zeros((n, m), dtype=float)
    for i, row in enumerate(spec["mat"]):
        for j, v in enumerate(row):
            dense[i, j] = pal.val(v)
    omd = [md_row_concrete(r, pal) for r in spec["omd"]["rows"]] if spec["omd"]["has"] else None
    smd = [md_row_concrete(r, pal) for r in spec["smd"]["rows"]] if spec["smd"]["has"] else None
    kw = {}
    if spec.get("type"):
        kw["type"] = type_concrete(spec["type"])
    if spec.get("tid"):
        kw["table_id"] = tid_concrete(pal, spec["tid"])
    build = spec.get("build", "dense")
    if build == "dense":
        data = dense
    elif build == "csr":
        data = sp.csr_matrix(dense)
    elif build == "csc":
        data = sp.csc_matrix(dense)
    elif build == "coo":
        data = sp.coo_matrix(dense)
    elif build == "lil":
        data = sp.lil_matrix(dense)
    elif build == "csr_unsorted":
        data = sp.csr_matrix(dense)
        for i in range(n):                      # reverse the entries of every row
            s, e = data.indptr[i], data.indptr[i + 1]
            data.indices[s:e] = data.indices[s:e][::-1].copy()
            data.data[s:e] = data.data[s:e][::-1].copy()
        data.has_sorted_indices = False
    elif build == "csr_zeros":
        # explicitly stored zeros at every zero cell of the first row / column
        rows, cols, vals = [], [], []
        for i in range(n):
            for j in range(m):
                if dense[i, j] != 0 or i == 0 or j == 0:
                    rows.append(i), cols.append(j), vals.append(dense[i, j])
        data = sp.csr_matrix((np.array(vals, dtype=float), (np.array(rows, dtype=int), np.array(cols, dtype=int))),
                             shape=(n, m))
    else:
        raise ValueError(build)
    t = Table(data, obs, samp, omd, smd, **kw)
    for axis, key, dtype, text in spec.get("gmd", []):
        t.add_group_metadata({key: (dtype, text)}, axis=axis)
    return t
