"""Which campaigns decide which property.

A campaign = a phase list for the TLC behaviour generator (BiomModel), the palettes the
behaviours are concretised with, and the judge module.  The clause prefix decides which
property a failing clause belongs to, so several properties share campaigns: each check
runs the campaigns that exercise the calls its clauses talk about.
"""
import json
import os
import random

from . import pipeline as P
from . import abstraction as A

IDP = A.ID_PALETTES
MOVE = [[i, v] for i in IDP for v in A.MOVE_VALUE_PALETTES
        if (i == "plain") or (v == "plain") or (i, v) in (("unicode", "adversarial"), ("numeric_ids", "scale_up"))]
SUMP = [[i, v] for i in ("plain", "unicode", "case_ids") for v in A.SUM_VALUE_PALETTES]
PLAIN = [["plain", "plain"]]


def ph(calls, full=False, res="same", pick=0):
    """one phase of a behaviour: which calls, full or reduced argument alphabet, where results go,
    and pick = how many of the enabled steps are taken per state (0 = all)"""
    return {"calls": list(calls), "full": full, "res": res, "pick": pick, "salt": 0}


REORDER = ["sort_order", "sort", "transpose"]
HIST = ["sort_order", "transpose", "filter", "update_ids", "sort"]


def ex(*phases):
    return list(phases)


def model_campaign(name, quick, thorough, palettes=MOVE, cap_quick=6000, cap_thorough=120000, tolerant=False,
                   judge=("BiomTrace.tla", "BiomTrace.cfg"), gen=("MC_Gen.tla", "MC_Gen.cfg")):
    return {"name": name, "kind": "model", "phases": {"quick": quick, "thorough": thorough},
            "palettes": palettes, "cap": {"quick": cap_quick, "thorough": cap_thorough}, "tolerant": tolerant,
            "judge": list(judge), "gen": list(gen)}


FULLREORDER = ["sort_order", "sort", "transpose", "copy", "update_ids", "align_to"]
CAMPAIGNS = {
    "filter_direct": model_campaign(
        "filter_direct",
        quick=[ex(ph(["filter"], True, "r"))],
        thorough=[ex(ph(["filter"], True, "r"))]),
    "filter_after_history": model_campaign(
        "filter_after_history",
        quick=[ex(ph(HIST), ph(["filter"], True, "r", 10)),
               ex(ph(HIST), ph(HIST, pick=4), ph(["filter"], True, "r", 3))],
        thorough=[ex(ph(HIST), ph(["filter"], True, "r")),
                  ex(ph(HIST, True, pick=40), ph(HIST, pick=6), ph(["filter"], True, "r", 12)),
                  ex(ph(HIST), ph(HIST, pick=6), ph(HIST, pick=3), ph(["filter"], True, "r", 6))]),
    "empty_head_after_history": model_campaign(
        "empty_head_after_history",
        quick=[ex(ph(["remove_empty", "head"], True, "r")),
               ex(ph(HIST), ph(["remove_empty", "head"], True, "r", 8)),
               ex(ph(HIST), ph(HIST, pick=4), ph(["remove_empty", "head"], True, "r", 3))],
        thorough=[ex(ph(HIST, True), ph(["remove_empty", "head"], True, "r")),
                  ex(ph(HIST), ph(HIST, pick=8), ph(["remove_empty", "head"], True, "r"))]),
    "reorder_full": model_campaign(
        "reorder_full",
        quick=[ex(ph(FULLREORDER, True, "r")),
               ex(ph(HIST), ph(FULLREORDER, True, "r", 12)),
               ex(ph(HIST), ph(HIST, pick=4), ph(FULLREORDER, True, "r", 3))],
        thorough=[ex(ph(HIST, True, pick=40), ph(FULLREORDER, True, "r")),
                  ex(ph(HIST), ph(HIST, pick=8), ph(FULLREORDER, True, "r", 20))]),
    "involutions": model_campaign(
        "involutions",
        quick=[ex(ph(["transpose"]), ph(["transpose"], False, "r")),
               ex(ph(["sort_order"], True), ph(["sort_order"], True, "r", 6))],
        thorough=[ex(ph(REORDER, True), ph(REORDER, True, "r")),
                  ex(ph(REORDER, True, pick=12), ph(REORDER, True, pick=6), ph(REORDER, True, "r", 6))]),
}


PROPERTIES = {
    "C08": {
        "level": "model_checking",
        "campaigns": [CAMPAIGNS["filter_direct"], CAMPAIGNS["filter_after_history"],
                      CAMPAIGNS["empty_head_after_history"]],
        "assumptions": ["copy.deepcopy, scipy toarray and numpy are trusted for the projection",
                        "behaviour of the compiled kernels is taken from the .so (rebuilt from .c when stale)"],
    },
    "C06": {
        "level": "model_checking",
        "campaigns": [CAMPAIGNS["reorder_full"], CAMPAIGNS["involutions"]],
        "assumptions": ["copy.deepcopy, scipy toarray and numpy are trusted for the projection"],
    },
}


def run_campaign(camp, tier, seed, wd):
    rng = random.Random(seed * 1000003 + hash(camp["name"]) % 1000)
    import time
    t0 = time.time()
    behaviours = []
    gstats = []
    import concurrent.futures as cf

    def gen_one(arg):
        i, phases = arg
        phases = [dict(p_, salt=(seed * 31 + 7 * k_ + i) % 9973) for k_, p_ in enumerate(phases)]
        return P.generate(phases, wd, module=camp["gen"][0], cfg=camp["gen"][1],
                          name="gen_%s_%d" % (camp["name"], i))
    with cf.ThreadPoolExecutor(max_workers=4) as ex_:
        for b, st in ex_.map(gen_one, list(enumerate(camp["phases"][tier]))):
            behaviours.extend(b)
            gstats.append(st)
    behaviours = P.dedup(behaviours)
    total = len(behaviours)
    cap = camp["cap"][tier]
    sampled = False
    if total > cap:
        rng2 = random.Random(seed + 12345)
        behaviours = rng2.sample(behaviours, cap)
        sampled = True
    stimuli = P.to_driver_stimuli(behaviours, camp["palettes"], seed, all_palettes=False,
                                  tolerant=camp.get("tolerant", False))
    for s in stimuli:
        s["judge"] = camp["judge"]
    t1 = time.time()
    traces = P.replay(stimuli, wd)
    t2 = time.time()
    j = P.judge(traces, wd, module=camp["judge"][0], cfg=camp["judge"][1], name="tr_" + camp["name"])
    summary = {"name": camp["name"], "behaviours_enumerated": total, "behaviours_replayed": len(behaviours),
               "sampled": sampled, "gen": gstats,
               "gen_states": sum(g["states"] for g in gstats), "gen_transitions": sum(g["transitions"] for g in gstats),
               "traces": len(traces), "judge_states": j["states"], "fails": len(j["fails"]),
               "gen_s": round(t1 - t0, 1), "replay_s": round(t2 - t1, 1), "judge_s": round(time.time() - t2, 1)}
    print("  campaign %-28s behaviours=%d replayed=%d gen=%.1fs replay=%.1fs judge=%.1fs fails=%d"
          % (camp["name"], total, len(behaviours), t1 - t0, t2 - t1, time.time() - t2, len(j["fails"])), flush=True)
    return {"summary": summary, "stimuli": stimuli, "traces": traces, "judge": j}


def rejudge(stim, wd):
    stim = dict(stim)
    stim.setdefault("id", 1)
    traces = P.replay([stim], wd, nproc=1)
    jm = stim.get("judge", ["BiomTrace.tla", "BiomTrace.cfg"])
    return P.judge(traces, wd, module=jm[0], cfg=jm[1], njvm=1)
