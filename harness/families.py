"""Which campaigns decide which property.

A campaign = a phase list for the TLC behaviour generator (BiomModel), the palettes the
behaviours are concretised with, and the judge module.  The clause prefix decides which
property a failing clause belongs to, so several properties share campaigns: each check
runs the campaigns that exercise the calls its clauses talk about.
"""
import collections
import json
import os
import random

from . import pipeline as P
from . import abstraction as A

IDP = A.ID_PALETTES
MOVE = [[i, v] for i in IDP for v in A.MOVE_VALUE_PALETTES
        if (i == "plain") or (v == "plain") or (i, v) in (("unicode", "adversarial"), ("numeric_ids", "scale_up"))]
SUMP = [[i, v] for i in ("plain", "unicode", "case_ids") for v in A.SUM_VALUE_PALETTES]
PLAIN = [["plain", "plain"]]
MOVE_NOADV = [p for p in MOVE if p[1] != "adversarial"]      # campaigns whose reads include sums


def ph(calls, full=False, res="same", pick=0, recv="a"):
    """one phase of a behaviour: which calls, full or reduced argument alphabet, where results go,
    and pick = how many of the enabled steps are taken per state (0 = all)"""
    return {"calls": list(calls), "full": full, "res": res, "pick": pick, "salt": 0, "recv": recv}


REORDER = ["sort_order", "sort", "transpose"]
HIST = ["sort_order", "transpose", "filter", "update_ids", "sort"]


def ex(*phases):
    return list(phases)


def model_campaign(name, quick, thorough, palettes=MOVE, cap_quick=6000, cap_thorough=120000, tolerant=False,
                   judge=("BiomTrace.tla", "BiomTrace.cfg"), gen=("MC_Gen.tla", "MC_Gen.cfg"), heaps="std"):
    return {"name": name, "kind": "model", "phases": {"quick": quick, "thorough": thorough}, "heaps": heaps,
            "palettes": palettes, "cap": {"quick": cap_quick, "thorough": cap_thorough}, "tolerant": tolerant,
            "judge": list(judge), "gen": list(gen)}


FULLREORDER = ["sort_order", "sort", "transpose", "copy", "update_ids", "align_to"]
CAMPAIGNS = {
    "filter_direct": model_campaign(
        "filter_direct",
        quick=[ex(ph(["filter"], True, "r"))],
        thorough=[ex(ph(["filter"], True, "r"))]),
    # C08's own quantifier: every matrix over {0,1,2} of a shape x every subset x invert x axis x inplace
    "filter_universe_2x3": dict(model_campaign(
        "filter_universe_2x3", heaps="univ", palettes=[["plain", "plain"], ["unicode", "scale_up"], ["case_ids", "plain"]],
        quick=[ex(ph(["filter_subsets"], False, "r"))], thorough=[ex(ph(["filter_subsets"], True, "r"))],
        cap_quick=8000, cap_thorough=200000),
        univ={"quick": {"n": 2, "m": 3, "vals": 3, "k": 120}, "thorough": {"n": 2, "m": 3, "vals": 3, "k": 0}}),
    "filter_universe_3x3": dict(model_campaign(
        "filter_universe_3x3", heaps="univ", palettes=[["plain", "plain"], ["numeric_ids", "scale_down"]],
        quick=[ex(ph(["filter_subsets"], False, "r"))], thorough=[ex(ph(["filter_subsets"], False, "r"))],
        cap_quick=8000, cap_thorough=400000),
        univ={"quick": {"n": 3, "m": 3, "vals": 2, "k": 60}, "thorough": {"n": 3, "m": 3, "vals": 3, "k": 1500}}),
    "reorder_universe": dict(model_campaign(
        "reorder_universe", heaps="univ", palettes=[["plain", "plain"], ["long_ids", "scale_up"]],
        quick=[ex(ph(["sort_order", "transpose", "sort", "copy"], True, "r"))],
        thorough=[ex(ph(["sort_order", "transpose", "sort", "copy", "update_ids"], True, "r"))],
        cap_quick=8000, cap_thorough=200000),
        univ={"quick": {"n": 2, "m": 3, "vals": 3, "k": 80}, "thorough": {"n": 2, "m": 3, "vals": 3, "k": 0}}),
    "transform_universe": dict(model_campaign(
        "transform_universe", heaps="univ", palettes=[["plain", "plain"], ["plain", "scale_down"], ["unicode", "scale_up"]],
        quick=[ex(ph(["transform", "norm", "pa", "rankdata"], False, "r"))],
        thorough=[ex(ph(["transform", "norm", "pa", "rankdata"], True, "r"))],
        cap_quick=8000, cap_thorough=200000),
        univ={"quick": {"n": 3, "m": 2, "vals": 3, "k": 80}, "thorough": {"n": 3, "m": 2, "vals": 3, "k": 0}}),
    "summary_universe": dict(model_campaign(
        "summary_universe", heaps="univ", palettes=[["plain", "plain"], ["case_ids", "scale_up"]],
        quick=[ex(ph(["summary"], False, "r"))], thorough=[ex(ph(["summary"], True, "r"))],
        cap_quick=8000, cap_thorough=200000),
        univ={"quick": {"n": 2, "m": 3, "vals": 3, "k": 60}, "thorough": {"n": 2, "m": 3, "vals": 3, "k": 0}}),
    "filter_after_history": model_campaign(
        "filter_after_history",
        quick=[ex(ph(HIST), ph(["filter_ids"], True, "r", 6)),
               ex(ph(REORDER), ph(["filter_pred"], True, "r", 16)),
               ex(ph(HIST, pick=10), ph(HIST, pick=3), ph(["filter"], True, "r", 3))],
        thorough=[ex(ph(HIST), ph(["filter"], True, "r")),
                  ex(ph(HIST, True, pick=40), ph(HIST, pick=6), ph(["filter"], True, "r", 12)),
                  ex(ph(HIST), ph(HIST, pick=6), ph(HIST, pick=3), ph(["filter"], True, "r", 6))]),
    "empty_head_after_history": model_campaign(
        # scale_tiny: values in the subnormal range (a vector whose squares or products underflow is not empty)
        "empty_head_after_history", palettes=MOVE + [["plain", "scale_tiny"], ["unicode", "scale_tiny"]],
        quick=[ex(ph(["remove_empty", "head", "align_df"], True, "r")),
               ex(ph(HIST), ph(["remove_empty", "head", "align_df"], True, "r", 8)),
               ex(ph(HIST), ph(HIST, pick=4), ph(["remove_empty", "head", "align_df"], True, "r", 3))],
        thorough=[ex(ph(HIST, True), ph(["remove_empty", "head", "align_df"], True, "r")),
                  ex(ph(HIST), ph(HIST, pick=8), ph(["remove_empty", "head", "align_df"], True, "r"))]),
    "reorder_full": model_campaign(
        "reorder_full",
        quick=[ex(ph(FULLREORDER, True, "r")),
               ex(ph(HIST), ph(FULLREORDER, True, "r", 12)),
               ex(ph(HIST), ph(HIST, pick=4), ph(FULLREORDER, True, "r", 3))],
        thorough=[ex(ph(HIST, True, pick=40), ph(FULLREORDER, True, "r")),
                  ex(ph(HIST), ph(HIST, pick=8), ph(FULLREORDER, True, "r", 20))]),
    "reorder_len4": model_campaign(
        # every permutation of an axis of length 4, and pairs of permutations (a permutation, then its inverse
        # among them); align_to on a permuted 4 x 4 pair
        "reorder_len4", heaps="len4",
        quick=[ex(ph(["sort_order", "sort", "transpose", "align_to"], True, "r")),
               ex(ph(["sort_order"], True, pick=8), ph(["sort_order"], True, "r", 12))],
        thorough=[ex(ph(["sort_order"], True), ph(["sort_order", "transpose", "align_to"], True, "r")),
                  ex(ph(HIST, pick=10), ph(FULLREORDER, True, "r"))]),
    "rename_lengths": model_campaign(
        # every renaming family on axes of length 4 under the ID palettes whose IDs differ in length, sort order and
        # case (the width of the stored ID array must fit every kept and every new ID)
        "rename_lengths", heaps="len4", palettes=[["long_ids", "plain"], ["numeric_ids", "plain"], ["case_ids", "plain"],
                                                  ["unicode", "plain"]],
        quick=[ex(ph(["update_ids"], True, "r"))],
        thorough=[ex(ph(["update_ids"], True, "r")), ex(ph(HIST, pick=8), ph(["update_ids"], True, "r"))]),
    "involutions": model_campaign(
        "involutions",
        quick=[ex(ph(["transpose"]), ph(["transpose"], False, "r")),
               ex(ph(["sort_order"], True), ph(["sort_order"], True, "r", 6))],
        thorough=[ex(ph(REORDER, True), ph(REORDER, True, "r")),
                  ex(ph(REORDER, True, pick=12), ph(REORDER, True, pick=6), ph(REORDER, True, "r", 6))]),
}


IDONLY = [[i, "plain"] for i in IDP]
INPLACE_OPS = ["filter", "update_ids", "add_metadata", "del_metadata", "transform", "norm", "pa", "rankdata",
               "remove_empty"]
NEWTABLE_OPS = ["sort", "sort_order", "transpose", "copy", "head", "align_to", "align_df"]
XFORM = ["transform", "norm", "pa", "rankdata"]
ALLOPS = ["filter", "remove_empty", "head", "sort", "sort_order", "transpose", "copy", "update_ids", "add_metadata",
          "del_metadata", "transform", "pa", "rankdata", "align_to", "align_df", "read"]
LAYOUT = ["sort_order", "transpose", "read", "filter", "sort"]          # calls that change the hidden layout

CAMPAIGNS.update({
    "coherence_walks": model_campaign(
        "coherence_walks", palettes=IDONLY, heaps="std", cap_quick=9000,
        quick=[ex(ph(ALLOPS, True, pick=60), ph(["probe"])),
               ex(ph(["filter", "remove_empty", "head"], pick=12), ph(["update_ids"], True), ph(["probe"])),
               ex(ph(["filter", "remove_empty", "head"], pick=12), ph(["add_metadata", "sort_order", "filter"], True, pick=20),
                  ph(["probe"])),                                   # operations on a shrunk / emptied table
               ex(ph(ALLOPS, pick=12), ph(ALLOPS, pick=5), ph(["probe"])),
               ex(ph(ALLOPS, pick=8), ph(ALLOPS, pick=3), ph(ALLOPS, pick=3), ph(ALLOPS, pick=2), ph(["probe"])),
               # narrow deep walks: 8 and 10 calls
               ex(ph(ALLOPS, pick=5), *([ph(ALLOPS, pick=1)] * 7 + [ph(["probe"])])),
               ex(ph(ALLOPS, True, pick=3), ph(ALLOPS, pick=2), *([ph(ALLOPS, True, pick=1)] * 8 + [ph(["probe"])]))],
        thorough=[ex(ph(ALLOPS, True), ph(["probe"])),
                  ex(ph(ALLOPS, pick=12), ph(ALLOPS, pick=2), ph(ALLOPS, pick=2), *([ph(ALLOPS, True, pick=1)] * 9 + [ph(["probe"])])),
                  ex(ph(ALLOPS, True, pick=25), *([ph(ALLOPS, pick=1)] * 13 + [ph(["probe"])])),
                  ex(ph(ALLOPS), ph(ALLOPS, True, pick=30), ph(["probe"])),
                  ex(ph(ALLOPS, pick=20), ph(ALLOPS, pick=6), ph(ALLOPS, pick=4), ph(ALLOPS, pick=3), ph(ALLOPS, pick=2),
                     ph(["probe"]))]),
    "reads_full": model_campaign(
        "reads_full", palettes=MOVE_NOADV,
        quick=[ex(ph(["read"], True)), ex(ph(LAYOUT, pick=10), ph(["read"], True, pick=12)),
               ex(ph(LAYOUT, pick=6), ph(LAYOUT, pick=3), ph(["read"], True, pick=6))],
        thorough=[ex(ph(LAYOUT), ph(["read"], True)),
                  ex(ph(LAYOUT), ph(LAYOUT, pick=6), ph(["read"], True, pick=12))]),
    "no_showthrough": model_campaign(
        "no_showthrough", palettes=IDONLY,
        quick=[ex(ph(NEWTABLE_OPS + INPLACE_OPS, False, "r"), ph(INPLACE_OPS, False, "same", 8, "r")),
               ex(ph(LAYOUT, pick=6), ph(NEWTABLE_OPS + INPLACE_OPS, False, "r", 8), ph(INPLACE_OPS, False, "same", 4, "r")),
               # a value transform along an axis leaves the receiver in that axis' layout (CSC after the sample axis):
               # the next not-in-place value operation must still work on a copy
               ex(ph(["transform"], False, "same"), ph(XFORM, False, "r"))],
        thorough=[ex(ph(NEWTABLE_OPS + INPLACE_OPS, True, "r", 60), ph(INPLACE_OPS, False, "same", 0, "r")),
                  ex(ph(XFORM + ["filter"], False, "same"), ph(XFORM + ["filter", "remove_empty", "update_ids"], False, "r")),
                  ex(ph(LAYOUT), ph(NEWTABLE_OPS + INPLACE_OPS, False, "r"), ph(INPLACE_OPS, False, "same", 10, "r"))]),
    "newtable_frame": model_campaign(
        "newtable_frame", palettes=IDONLY, heaps="pairs",
        quick=[ex(ph(["subsample", "collapse", "partition", "merge", "concat", "align_to"], False, "r")),
               ex(ph(LAYOUT, pick=6), ph(["subsample", "collapse", "partition", "merge", "concat", "align_to"], False, "r", 8),
                  ph(INPLACE_OPS, False, "same", 3, "r")),
               ex(ph(LAYOUT, False, "same", 4, "b"), ph(["merge", "concat", "align_to"], False, "r"),
                  ph(INPLACE_OPS, False, "same", 3, "r"))],
        thorough=[ex(ph(LAYOUT), ph(["subsample", "collapse", "partition", "merge", "concat", "align_to"], True, "r", 40),
                     ph(INPLACE_OPS, False, "same", 6, "r"))]),
    "layout_newtable_inplace": model_campaign(
        # a layout-changing read first (CSC vs CSR decides whether conversions copy), a new-table operation,
        # then every in-place value/ID mutator on the result: the receiver must not change
        "layout_newtable_inplace", palettes=IDONLY,
        quick=[ex(ph(["read"]), ph(["transpose", "copy", "sort_order", "head", "align_to", "sort"], False, "r"),
                  ph(XFORM + ["filter", "update_ids"], False, "same", 5, "r"))],
        thorough=[ex(ph(["read"] + REORDER), ph(["transpose", "copy", "sort_order", "head", "align_to", "sort"], False, "r"),
                     ph(XFORM + ["filter", "update_ids", "add_metadata", "del_metadata"], False, "same", 0, "r"))]),
    "inplace_twins": model_campaign(
        "inplace_twins", palettes=IDONLY,
        quick=[ex(ph(INPLACE_OPS, True, "r", 150)),
               ex(ph(LAYOUT, pick=8), ph(INPLACE_OPS, True, "r", 14))],
        thorough=[ex(ph(INPLACE_OPS, True, "r")),
                  ex(ph(LAYOUT), ph(INPLACE_OPS, True, "r", 40))]),
    "equality_routes": model_campaign(
        "equality_routes", palettes=MOVE, heaps="eq",
        quick=[ex(ph(["eq"])), ex(ph(["eqx"], True)),
               ex(ph(["read"], True), ph(["eq"])),
               ex(ph(["read"], True, pick=8), ph(["eqx"])),
               ex(ph(["read"], False, "same", 0, "b"), ph(["eq", "eqx"])),
               ex(ph(["read"], True, pick=6), ph(["read"], False, "same", 3, "b"), ph(["eq"])),
               ex(ph(["filter", "sort_order", "transpose", "copy", "update_ids"], True, pick=20), ph(["read"], pick=2),
                  ph(["eq", "eqx"])),
               # one operand comes back from a file (JSON / TSV / HDF5 text leaves its own layout and value types behind)
               ex(ph(["rt_json", "rt_tsv", "rt_hdf5"], False, "same"), ph(["eq", "eqx"], True))],
        thorough=[ex(ph(["read"], True), ph(["read"], True, "same", 0, "b"), ph(["eq"])),
                  ex(ph(["read"], True), ph(["read"], True, "same", 8, "b"), ph(["eqx"], True)),
                  ex(ph(["filter", "sort_order", "transpose", "copy", "update_ids", "add_metadata", "del_metadata"], True),
                     ph(["read"], pick=3), ph(["eq", "eqx"]))]),
    "equality_universe": dict(model_campaign(
        "equality_universe", palettes=MOVE, heaps="univeq",
        quick=[ex(ph(["eq"]))], thorough=[ex(ph(["eq"])), ex(ph(["read"], False, pick=2), ph(["eqx"]))],
        cap_quick=8000, cap_thorough=200000),
        univ={"quick": {"n": 2, "m": 2, "vals": 3, "k": 1500}, "thorough": {"n": 2, "m": 2, "vals": 3, "k": 0}}),
    "equality_triples": model_campaign(
        "equality_triples", palettes=MOVE, heaps="eq3",
        quick=[ex(ph(["eq3"])),
               ex(ph(["read"], True, pick=10), ph(["eq3"])),
               ex(ph(["read"], False, "same", 0, "b"), ph(["read"], False, "same", 4, "c"), ph(["eq3"]))],
        thorough=[ex(ph(["read"], True), ph(["eq3"])),
                  ex(ph(["read"], True, pick=10), ph(["read"], True, "same", 0, "b"), ph(["read"], False, "same", 4, "c"),
                     ph(["eq3"]))]),
    "transforms": model_campaign(
        "transforms", palettes=IDONLY + [["plain", "scale_down"], ["unicode", "scale_up"], ["case_ids", "scale_down"],
                                         ["plain", "scale_tiny"]],
        quick=[ex(ph(XFORM, True, "r")),
               ex(ph(LAYOUT, pick=10), ph(XFORM, True, "r", 14)),
               ex(ph(LAYOUT, pick=6), ph(LAYOUT, pick=3), ph(XFORM, True, "r", 5))],
        thorough=[ex(ph(LAYOUT), ph(XFORM, True, "r")),
                  ex(ph(LAYOUT), ph(LAYOUT, pick=6), ph(XFORM, True, "r", 20))]),
    "metadata_updates": model_campaign(
        "metadata_updates", palettes=IDONLY,
        quick=[ex(ph(["add_metadata", "del_metadata"], True)),
               ex(ph(["add_metadata"], True), ph(["del_metadata"], True, pick=8)),        # delete what was just added
               ex(ph(HIST + ["add_metadata", "del_metadata"], pick=12), ph(["add_metadata", "del_metadata"], True, pick=12)),
               ex(ph(["add_metadata", "del_metadata"], True, pick=10), ph(["add_metadata", "del_metadata"], True, pick=6))],
        thorough=[ex(ph(HIST + ["add_metadata", "del_metadata"]), ph(["add_metadata", "del_metadata"], True)),
                  ex(ph(["add_metadata", "del_metadata"], True), ph(["add_metadata", "del_metadata"], True))]),
})


CNTP = [[i, "plain"] for i in ("plain", "unicode", "case_ids", "numeric_ids")]
PAIROPS = ["merge", "concat", "align_to", "partition", "collapse", "subsample", "filter", "sort_order", "transpose",
           "update_ids", "add_metadata", "read"]
CAMPAIGNS.update({
    "coherence_pairs": model_campaign(
        "coherence_pairs", palettes=IDONLY, heaps="mrg",
        quick=[ex(ph(PAIROPS, False, "r", 10), ph(PAIROPS, False, "same", 3, "r"), ph(["probe"], recv="r")),
               ex(ph(PAIROPS, False, "r", 10), ph(["merge", "concat", "align_to"], False, "q", 0, "r"), ph(["probe"], recv="q"))],
        thorough=[ex(ph(PAIROPS, True, "r", 60), ph(PAIROPS, False, "same", 6, "r"), ph(["probe"], recv="r")),
                  ex(ph(PAIROPS, False, "r"), ph(["merge", "concat", "align_to"], True, "q", 0, "r"), ph(["probe"], recv="q"))]),
    "merge_pairs": model_campaign(
        "merge_pairs", palettes=SUMP, heaps="mrg",
        quick=[ex(ph(["merge"], True, "r")),
               ex(ph(LAYOUT, pick=6), ph(["merge"], True, "r", 8)),
               ex(ph(LAYOUT, False, "same", 4, "b"), ph(["merge"], True, "r", 8))],
        thorough=[ex(ph(LAYOUT), ph(["merge"], True, "r")),
                  ex(ph(LAYOUT, False, "same", 0, "b"), ph(["merge"], True, "r")),
                  ex(ph(LAYOUT, pick=8), ph(LAYOUT, False, "same", 4, "b"), ph(["merge"], True, "r"))]),
    # every pair of 2 x 2 matrices over {0,1,2} on partially overlapping IDs x the four union/intersection modes
    "merge_universe": dict(model_campaign(
        "merge_universe", palettes=SUMP, heaps="univpair",
        quick=[ex(ph(["merge"], False, "r"))], thorough=[ex(ph(["merge"], True, "r", 8))],
        cap_quick=8000, cap_thorough=200000),
        univ={"quick": {"n": 2, "m": 2, "vals": 3, "k": 500}, "thorough": {"n": 2, "m": 2, "vals": 3, "k": 0}}),
    "concat_universe": dict(model_campaign(
        "concat_universe", palettes=SUMP, heaps="univcat",
        quick=[ex(ph(["concat"], False, "r"))], thorough=[ex(ph(["concat"], True, "r"))],
        cap_quick=8000, cap_thorough=200000),
        univ={"quick": {"n": 2, "m": 2, "vals": 3, "k": 400}, "thorough": {"n": 2, "m": 2, "vals": 3, "k": 0}}),
    "concat_blocks": model_campaign(
        "concat_blocks", palettes=SUMP, heaps="cat",
        quick=[ex(ph(["concat"], True, "r")),
               ex(ph(LAYOUT, pick=6), ph(["concat"], True, "r", 8)),
               ex(ph(LAYOUT, False, "same", 4, "b"), ph(["concat"], True, "r", 8))],
        thorough=[ex(ph(LAYOUT), ph(["concat"], True, "r")),
                  ex(ph(LAYOUT, False, "same", 0, "b"), ph(["concat"], True, "r")),
                  ex(ph(LAYOUT, pick=8), ph(LAYOUT, False, "same", 4, "b"), ph(["concat"], True, "r"))]),
    "partition_collapse": model_campaign(
        "partition_collapse", palettes=SUMP, heaps="stdcnt",
        quick=[ex(ph(["partition", "collapse"], True, "r")),
               ex(ph(LAYOUT, pick=6), ph(["partition", "collapse"], True, "r", 12))],
        thorough=[ex(ph(LAYOUT), ph(["partition", "collapse"], True, "r")),
                  ex(ph(LAYOUT, pick=10), ph(LAYOUT, pick=4), ph(["partition", "collapse"], True, "r", 20))]),
    # every 2 x 3 count matrix over {0,1,2}
    "partition_universe": dict(model_campaign(
        "partition_universe", palettes=SUMP, heaps="univ",
        quick=[ex(ph(["partition", "collapse"], False, "r"))], thorough=[ex(ph(["partition", "collapse"], True, "r", 24))],
        cap_quick=8000, cap_thorough=200000),
        univ={"quick": {"n": 3, "m": 2, "vals": 3, "k": 60}, "thorough": {"n": 3, "m": 2, "vals": 3, "k": 0}}),
    "subsample_universe": dict(model_campaign(
        "subsample_universe", palettes=CNTP, heaps="univ",
        quick=[ex(ph(["subsample"], False, "r"))], thorough=[ex(ph(["subsample"], True, "r", 24))],
        cap_quick=8000, cap_thorough=200000),
        univ={"quick": {"n": 2, "m": 3, "vals": 3, "k": 80}, "thorough": {"n": 2, "m": 3, "vals": 3, "k": 0}}),
    "subsample_counts": model_campaign(
        "subsample_counts", palettes=CNTP, heaps="cnt",
        quick=[ex(ph(["subsample"], True, "r")),
               ex(ph(LAYOUT, pick=8), ph(["subsample"], True, "r", 16))],
        thorough=[ex(ph(LAYOUT), ph(["subsample"], True, "r")),
                  ex(ph(LAYOUT, pick=10), ph(LAYOUT, pick=4), ph(["subsample"], True, "r", 30))]),
})

FILEP = [["plain", "plain"], ["unicode", "adversarial"], ["numeric_ids", "scale_down"], ["long_ids", "plain"],
         ["plain", "adversarial"], ["unicode", "scale_up"], ["case_ids", "plain"]]
TSVP = [p for p in FILEP if p[0] != "case_ids"]          # TSV IDs: no leading/trailing blanks
CAMPAIGNS.update({
    "hdf5_roundtrip": model_campaign(
        "hdf5_roundtrip", palettes=FILEP, heaps="files",
        quick=[ex(ph(["rt_hdf5"], True, "r")),
               ex(ph(["rt_json", "rt_tsv", "rt_hdf5"], False, "same"), ph(["rt_hdf5"], True, "r", 6)),   # file -> file chains
               ex(ph(LAYOUT + ["update_ids", "subsample"], pick=10), ph(["rt_hdf5"], True, "r", 6)),
               ex(ph(LAYOUT, pick=5), ph(LAYOUT + ["subsample"], pick=3), ph(["rt_hdf5"], True, "r", 3))],
        thorough=[ex(ph(LAYOUT + ["update_ids", "subsample"]), ph(["rt_hdf5"], True, "r")),
                  ex(ph(LAYOUT), ph(LAYOUT + ["subsample"], pick=6), ph(["rt_hdf5"], True, "r", 6))]),
    "json_roundtrip": model_campaign(
        "json_roundtrip", palettes=FILEP + [["ctrl", "plain"], ["ctrl", "adversarial"], ["trail", "plain"]], heaps="json",
        quick=[ex(ph(["rt_json"], True, "r")),
               ex(ph(["rt_json", "rt_tsv", "rt_hdf5"], False, "same"), ph(["rt_json"], True, "r", 6)),
               ex(ph(LAYOUT + ["update_ids", "subsample"], pick=10), ph(["rt_json"], True, "r", 6))],
        thorough=[ex(ph(LAYOUT + ["update_ids", "subsample"]), ph(["rt_json"], True, "r")),
                  ex(ph(LAYOUT), ph(LAYOUT + ["subsample"], pick=6), ph(["rt_json"], True, "r", 6))]),
    "tsv_roundtrip": model_campaign(
        "tsv_roundtrip", palettes=TSVP, heaps="files",
        quick=[ex(ph(["rt_tsv"], True, "r")),
               ex(ph(["rt_json", "rt_tsv", "rt_hdf5"], False, "same"), ph(["rt_tsv"], True, "r", 8)),
               ex(ph(LAYOUT + ["update_ids", "subsample"], pick=10), ph(["rt_tsv"], True, "r", 8))],
        thorough=[ex(ph(LAYOUT + ["update_ids", "subsample"]), ph(["rt_tsv"], True, "r")),
                  ex(ph(LAYOUT), ph(LAYOUT + ["subsample"], pick=6), ph(["rt_tsv"], True, "r", 8))]),
    # every sparsity pattern of a 2 x 3 table (all 729 matrices over {0,1,2}) through every format
    "files_universe": dict(model_campaign(
        "files_universe", palettes=TSVP, heaps="univ",
        quick=[ex(ph(["rt_hdf5", "rt_json", "rt_tsv"], False, "r"))],
        thorough=[ex(ph(["rt_hdf5", "rt_json", "rt_tsv"], False, "r")),
                  ex(ph(["rt_hdf5", "rt_json", "rt_tsv"], True, "r", 12))],
        cap_quick=8000, cap_thorough=200000),
        univ={"quick": {"n": 2, "m": 3, "vals": 3, "k": 150}, "thorough": {"n": 2, "m": 3, "vals": 3, "k": 0}}),
    "subset_universe": dict(model_campaign(
        "subset_universe", palettes=TSVP, heaps="univ",
        quick=[ex(ph(["subset_read"], False, "r"))], thorough=[ex(ph(["subset_read"], True, "r", 30))],
        cap_quick=8000, cap_thorough=200000),
        univ={"quick": {"n": 2, "m": 3, "vals": 3, "k": 60}, "thorough": {"n": 2, "m": 3, "vals": 3, "k": 0}}),
    "subset_reads": model_campaign(
        "subset_reads", palettes=TSVP + [["trail", "plain"]], heaps="files",     # ID-list files cannot hold IDs with outer blanks
        quick=[ex(ph(["subset_read"], True, "r", 40)),
               ex(ph(LAYOUT, pick=6), ph(["subset_read"], True, "r", 8))],
        thorough=[ex(ph(["subset_read"], True, "r")),
                  ex(ph(LAYOUT), ph(["subset_read"], True, "r", 30))]),
})

CAMPAIGNS.update({
    "summaries": model_campaign(
        "summaries", palettes=[["plain", "plain"], ["unicode", "plain"], ["numeric_ids", "plain"], ["long_ids", "plain"],
                               ["plain", "scale_up"], ["unicode", "scale_down"]], heaps="sum",
        quick=[ex(ph(["summary"], True)),
               ex(ph(LAYOUT + ["subsample"], pick=8), ph(["summary"], True, pick=14)),
               ex(ph(LAYOUT, pick=5), ph(LAYOUT, pick=3), ph(["summary"], True, pick=6))],
        thorough=[ex(ph(LAYOUT + ["subsample"]), ph(["summary"], True)),
                  ex(ph(LAYOUT), ph(LAYOUT, pick=6), ph(["summary"], True, pick=14))]),
    "constructions": model_campaign(
        "constructions", palettes=MOVE, heaps="ctor",
        quick=[ex(ph(["construct", "construct_bad", "from_adjacency", "parse_uc"], True, "r"))],
        thorough=[ex(ph(["construct", "construct_bad", "from_adjacency", "parse_uc"], True, "r")),
                  ex(ph(LAYOUT), ph(["construct", "construct_bad"], True, "r"))]),
})

CAMPAIGNS["validator_mutations"] = model_campaign(
    "validator_mutations", palettes=[["plain", "plain"], ["unicode", "adversarial"], ["numeric_ids", "plain"]], heaps="val",
    quick=[ex(ph(["validate"], False)),                       # every single mutation, both formats, every base table
           ex(ph(["validate"], True, pick=150))],             # a strided sample of the double mutations
    thorough=[ex(ph(["validate"], True))],                    # every ordered double mutation
    cap_thorough=200000)

NOSTR = [["plain", "plain"], ["numeric_ids", "plain"], ["long_ids", "plain"]]     # keys/values are literal text here
CAMPAIGNS["mapping_files"] = model_campaign(
    "mapping_files", palettes=PLAIN, heaps="one",
    quick=[ex(ph(["mapfile"], False, pick=3000))],
    thorough=[ex(ph(["mapfile"], True, pick=40000))])
CAMPAIGNS["add_metadata_command"] = model_campaign(
    "add_metadata_command", palettes=NOSTR, heaps="val",
    quick=[ex(ph(["cli_add_metadata"], False, "r", 80))],
    thorough=[ex(ph(["cli_add_metadata"], True, "r", 1500))])

CAMPAIGNS["draws"] = {"name": "draws", "kind": "draws", "judge": ["BiomDrawTrace.tla", "BiomDrawTrace.cfg"]}
CAMPAIGNS["recorded_suite"] = {"name": "recorded_suite", "kind": "recorded", "tiers": ["quick", "thorough"],
                               "judge": ["BiomRecTrace.tla", "BiomRecTrace.cfg"]}

CAMPAIGNS["subset_wide"] = model_campaign(
    "subset_wide", palettes=TSVP + [["trail", "plain"]], heaps="wide",       # more than 8 IDs: remapping of larger index sets
    quick=[ex(ph(["subset_read"], False, "r"))],
    thorough=[ex(ph(["subset_read"], False, "r")), ex(ph(LAYOUT, pick=6), ph(["subset_read"], False, "r"))])

CAMPAIGNS["err_profile"] = {
    "name": "err_profile", "kind": "err", "judge": ["BiomErrTrace.tla", "BiomErrTrace.cfg"],
    "cfgs": {"quick": [{"depth": 2, "nest": 3, "pick": [0, 0]},
                       {"depth": 3, "nest": 2, "pick": [0, 0, 0], "focus": "call"},
                       {"depth": 4, "nest": 2, "pick": [0, 6, 6, 0], "focus": "call"},
                       {"depth": 4, "nest": 3, "pick": [12, 8, 6, 5]},
                       {"depth": 6, "nest": 3, "pick": [6, 4, 3, 3, 2, 2]}],
             "thorough": [{"depth": 3, "nest": 3, "pick": [0, 0, 12]},
                          {"depth": 4, "nest": 2, "pick": [0, 0, 0, 0], "focus": "call"},
                          {"depth": 5, "nest": 2, "pick": [0, 8, 8, 6, 0], "focus": "call"},
                          {"depth": 5, "nest": 3, "pick": [20, 10, 6, 5, 4]},
                          {"depth": 8, "nest": 3, "pick": [8, 4, 3, 3, 2, 2, 2, 2]}]}}

PROPERTIES = {
    "C15": {"level": "fault_enumeration", "campaigns": [CAMPAIGNS["validator_mutations"]],
            "assumptions": ["the mutated file is classified by harness/valdoc.py (json/h5py only, written against the "
                            "format documents); a validator crash counts as 'not reported valid'"]},
    "C17": {"level": "model_checking", "campaigns": [CAMPAIGNS["constructions"]], "assumptions": []},
    "C19": {"level": "model_checking", "campaigns": [CAMPAIGNS["summaries"], CAMPAIGNS["summary_universe"]], "assumptions": []},
    "C01": {"level": "model_checking", "campaigns": [CAMPAIGNS["hdf5_roundtrip"], CAMPAIGNS["files_universe"]], "assumptions": []},
    "C04": {"level": "model_checking", "campaigns": [CAMPAIGNS["hdf5_roundtrip"], CAMPAIGNS["files_universe"]], "assumptions": []},
    "C02": {"level": "model_checking", "campaigns": [CAMPAIGNS["json_roundtrip"], CAMPAIGNS["files_universe"]], "assumptions": []},
    "C03": {"level": "model_checking", "campaigns": [CAMPAIGNS["tsv_roundtrip"], CAMPAIGNS["files_universe"]], "assumptions": []},
    "C14": {"level": "model_checking", "campaigns": [CAMPAIGNS["subset_reads"], CAMPAIGNS["subset_wide"], CAMPAIGNS["subset_universe"]], "assumptions": []},
    "C20": {"level": "model_checking", "campaigns": [CAMPAIGNS["err_profile"]],
            # laws of the reference machine for ANY nesting depth, proved with TLAPS (51 s: thorough tier)
            "spec_checks": [{"kind": "tlaps", "module": "BiomErrProofs.tla", "deps": ["BiomErrCore.tla"], "thorough_only": True}],
            "assumptions": ["kinds obssize/sampsize cannot be tripped in isolation (the duplicate test is also true "
                            "for every size mismatch and is evaluated first), so their reactions are not exercised"]},
    "C09": {"level": "model_checking", "campaigns": [CAMPAIGNS["merge_pairs"], CAMPAIGNS["merge_universe"], CAMPAIGNS["recorded_suite"]], "assumptions": []},
    "C10": {"level": "model_checking", "campaigns": [CAMPAIGNS["concat_blocks"], CAMPAIGNS["concat_universe"], CAMPAIGNS["recorded_suite"]], "assumptions": []},
    "C11": {"level": "model_checking", "campaigns": [CAMPAIGNS["partition_collapse"], CAMPAIGNS["partition_universe"]], "assumptions": []},
    "C12": {"level": "model_checking", "campaigns": [CAMPAIGNS["subsample_counts"], CAMPAIGNS["subsample_universe"], CAMPAIGNS["draws"]],
            "spec_checks": [{"module": "MC_Draws.tla", "cfg": "MC_Draws.cfg", "workers": 1, "env": {"DRAW_CFG": "draws_%s.json" % m}}
                            for m in ("without", "with", "by_id")],
            "assumptions": ["the distribution clauses compare outcome frequencies over 4000 (quick) / 20000 (thorough) seeds "
                            "per configuration with the exact weights within 7 standard deviations: a fair implementation "
                            "fails one with probability < 1e-10; a bias smaller than that band is not seen"]},
    "C05": {
        "level": "model_checking",
        "campaigns": [CAMPAIGNS["coherence_walks"], CAMPAIGNS["recorded_suite"], CAMPAIGNS["reads_full"], CAMPAIGNS["partition_collapse"],
                      CAMPAIGNS["coherence_pairs"]],
        "assumptions": ["copy.deepcopy, scipy toarray and numpy are trusted for the projection"],
    },
    "C07": {
        "level": "model_checking",
        "campaigns": [CAMPAIGNS["inplace_twins"], CAMPAIGNS["recorded_suite"], CAMPAIGNS["no_showthrough"], CAMPAIGNS["reorder_full"],
                      CAMPAIGNS["newtable_frame"], CAMPAIGNS["layout_newtable_inplace"]],
        "assumptions": ["copy.deepcopy, scipy toarray and numpy are trusted for the projection"],
    },
    "C13": {
        "level": "model_checking",
        "campaigns": [CAMPAIGNS["transforms"], CAMPAIGNS["transform_universe"]],
        "assumptions": ["results of divisions are mapped to the nearest small rational within 1e-12 relative"],
    },
    "C16": {
        "level": "model_checking",
        "campaigns": [CAMPAIGNS["equality_routes"], CAMPAIGNS["equality_universe"], CAMPAIGNS["equality_triples"], CAMPAIGNS["reads_full"]],
        "assumptions": ["copy.deepcopy, scipy toarray and numpy are trusted for the projection"],
    },
    "C18": {
        "level": "model_checking",
        "campaigns": [CAMPAIGNS["metadata_updates"], CAMPAIGNS["recorded_suite"], CAMPAIGNS["mapping_files"], CAMPAIGNS["add_metadata_command"]],
        "assumptions": [],
    },
    "C08": {
        "level": "model_checking",
        "campaigns": [CAMPAIGNS["filter_direct"], CAMPAIGNS["filter_universe_2x3"], CAMPAIGNS["filter_universe_3x3"],
                      CAMPAIGNS["recorded_suite"], CAMPAIGNS["filter_after_history"],
                      CAMPAIGNS["empty_head_after_history"]],
        "assumptions": ["copy.deepcopy, scipy toarray and numpy are trusted for the projection",
                        "behaviour of the compiled kernels is taken from the .so (rebuilt from .c when stale)"],
    },
    "C06": {
        "level": "model_checking",
        "campaigns": [CAMPAIGNS["reorder_full"], CAMPAIGNS["reorder_len4"], CAMPAIGNS["rename_lengths"], CAMPAIGNS["reorder_universe"], CAMPAIGNS["recorded_suite"], CAMPAIGNS["involutions"]],
        "assumptions": ["copy.deepcopy, scipy toarray and numpy are trusted for the projection"],
    },
}


def run_err_campaign(camp, tier, seed, wd):
    import time
    t0 = time.time()
    behaviours, gstats = [], []
    for i, cfg in enumerate(camp["cfgs"][tier]):
        cfg = dict(cfg, salt=(seed * 17 + i) % 997)
        b, st = P.generate(cfg, wd, module="MC_Err.tla", cfg="MC_Err.cfg", name="gen_%s_%d" % (camp["name"], i),
                           envvar="ERR_CFG")
        behaviours.extend(b)
        gstats.append(st)
    behaviours = P.dedup(behaviours)
    stimuli = [{"id": k + 1, "steps": b["steps"], "pal": ["err", "plain"], "tag": "default-profile",
                "init": {}, "judge": camp["judge"], "driver": "driver_err"} for k, b in enumerate(behaviours)]
    t1 = time.time()
    traces = P.replay(stimuli, wd, driver="driver_err")
    t2 = time.time()
    j = P.judge(traces, wd, module=camp["judge"][0], cfg=camp["judge"][1], name="tr_" + camp["name"])
    print("  campaign %-28s behaviours=%d gen=%.1fs exec=%.1fs judge=%.1fs fails=%d"
          % (camp["name"], len(behaviours), t1 - t0, t2 - t1, time.time() - t2, len(j["fails"])), flush=True)
    summary = {"name": camp["name"], "behaviours_enumerated": len(behaviours), "behaviours_replayed": len(behaviours),
               "sampled": False, "gen": gstats, "gen_states": sum(g["states"] for g in gstats),
               "gen_transitions": sum(g["transitions"] for g in gstats), "traces": len(traces),
               "judge_states": j["states"], "fails": len(j["fails"])}
    return {"summary": summary, "stimuli": stimuli, "traces": traces, "judge": j}


# spec-level lemmas (independent of /repo): every table <= 2x3 over 3 values (quick); every table <= 3x3 over
# 2 values (thorough); C08, whose quantifier names that scope, also takes every table <= 3x3 over 3 values (27 min)
LEMMAS = [{"module": "MC_Lemmas.tla", "cfg": "MC_Lemmas.cfg", "workers": 8},
          {"module": "MC_Lemmas.tla", "cfg": "MC_Lemmas_mid.cfg", "workers": 16, "thorough_only": True, "timeout": 3000}]
for _p in ("C04", "C06", "C09", "C11", "C13"):
    PROPERTIES[_p]["spec_checks"] = LEMMAS
# transpose twice = identity and transpose keeps tables well shaped, proved with TLAPS for tables of any size (3 s)
PROPERTIES["C06"]["spec_checks"] = LEMMAS + [{"kind": "tlaps", "module": "BiomTableProofs.tla", "deps": []}]
# ... and that content equality is an equivalence relation (same proof module)
PROPERTIES["C16"]["spec_checks"] = [LEMMAS[0], {"kind": "tlaps", "module": "BiomTableProofs.tla", "deps": []}]
PROPERTIES["C18"]["spec_checks"] = [LEMMAS[0], {"kind": "tlaps", "module": "BiomTableProofs.tla", "deps": []}]
PROPERTIES["C08"]["spec_checks"] = LEMMAS + [{"module": "MC_Lemmas.tla", "cfg": "MC_Lemmas_big.cfg", "workers": 16,
                                               "thorough_only": True, "timeout": 4000}]


def run_recorded_campaign(camp, tier, seed, wd):
    """Run the repository's own test-suite with the guarded recorder hook and judge the recorded events."""
    import subprocess
    import time
    if tier not in camp["tiers"]:
        return None
    t0 = time.time()
    repo = os.environ.get("VERIF_REPO", "/repo")
    trace = os.path.join(wd, "recorded_suite.ndjson")
    env = dict(os.environ, BIOM_FORMAT_VERIF="1", BIOM_FORMAT_VERIF_RECORDER="harness.recorder",
               BIOM_FORMAT_VERIF_TRACE=trace, PYTHONPATH=P.ROOT + os.pathsep + repo)
    p = subprocess.run(["/venv/bin/python", "-m", "pytest", "-q", "-x", "-p", "no:cacheprovider", "biom"], cwd=repo, env=env,
                       stdout=subprocess.PIPE, stderr=subprocess.STDOUT, text=True, timeout=1800)
    events = []
    if os.path.exists(trace):
        for ln in open(trace, encoding="utf-8"):
            try:
                events.append(json.loads(ln))
            except Exception:
                pass
    for i, e in enumerate(events):
        e["seq"] = i + 1
    t1 = time.time()
    # one event = one trace for the generic machinery
    traces = [{"id": e["seq"], "pal": ["recorded", "plain"], "events": [e]} for e in events]
    path = os.path.join(wd, "rec_events.ndjson")
    with open(path, "w") as f:
        for e in events:
            f.write(json.dumps(e) + "\n")
    from . import tlcrun
    r = tlcrun.run_tlc(camp["judge"][0], camp["judge"][1], env={"TRACE_FILE": path}, workers=1,
                       metadir=os.path.join(wd, "rec_meta"), timeout=1800)
    if events and not r["completed"]:
        raise P.Machinery("judge failed on recorded events:\n" + r["tail"])
    recs = tlcrun.json_lines(r["lines"]) if events else []
    fails = [x for x in recs if x["k"] == "FAIL"]
    done = {x["id"]: x for x in recs if x["k"] == "DONE"}
    if len(done) != len(events):
        raise P.Machinery("recorded events judged: %d of %d" % (len(done), len(events)))
    import collections
    clauses = collections.Counter()
    for d in done.values():
        for c in d["seen"]:
            clauses[c] += 1
    j = {"fails": fails, "done": done, "states": r.get("states", 0), "transitions": r.get("transitions", 0),
         "clauses": clauses, "cnt": sum(d["cnt"] for d in done.values())}
    stimuli = [{"id": e["seq"], "tag": "repo test-suite", "pal": ["recorded", "plain"], "recorded_event": e,
                "steps": [{"call": e["call"], "args": e["args"]}], "init": {}, "judge": camp["judge"]} for e in events]
    print("  campaign %-28s suite=%s events=%d record=%.1fs judge=%.1fs fails=%d"
          % (camp["name"], p.stdout.strip().split("\n")[-1][:60], len(events), t1 - t0, time.time() - t1, len(fails)),
          flush=True)
    summary = {"name": camp["name"], "behaviours_enumerated": len(events), "behaviours_replayed": len(events),
               "sampled": False, "gen": [], "gen_states": 0, "gen_transitions": 0, "traces": len(traces),
               "judge_states": j["states"], "fails": len(fails), "suite_result": p.stdout.strip().split("\n")[-1]}
    return {"summary": summary, "stimuli": stimuli, "traces": traces, "judge": j}


def run_campaign(camp, tier, seed, wd):
    if camp.get("kind") == "err":
        return run_err_campaign(camp, tier, seed, wd)
    if camp.get("kind") == "recorded":
        return run_recorded_campaign(camp, tier, seed, wd)
    if camp.get("kind") == "draws":
        from . import draws
        return draws.run_draw_campaign(camp, tier, seed, wd)
    rng = random.Random(seed * 1000003 + hash(camp["name"]) % 1000)
    import time
    t0 = time.time()
    behaviours = []
    gstats = []
    import concurrent.futures as cf

    genv = {"GEN_HEAPS": camp.get("heaps", "std")}
    if camp.get("univ"):
        up = os.path.join(wd, "univ_%s.json" % camp["name"])
        with open(up, "w") as f:
            json.dump(dict(camp["univ"][tier], salt=seed % 97), f)
        genv["GEN_UNIV"] = up

    def gen_one(arg):
        i, phases = arg
        phases = [dict(p_, salt=(seed * 31 + 7 * k_ + i) % 9973) for k_, p_ in enumerate(phases)]
        return P.generate(phases, wd, module=camp["gen"][0], cfg=camp["gen"][1],
                          name="gen_%s_%d" % (camp["name"], i), extra_env=genv,
                          timeout=900 if tier == "quick" else 5400)
    with cf.ThreadPoolExecutor(max_workers=4) as ex_:
        for b, st in ex_.map(gen_one, list(enumerate(camp["phases"][tier]))):
            behaviours.extend(b)
            gstats.append(st)
    behaviours = P.dedup(behaviours)
    total = len(behaviours)
    cap = camp["cap"][tier]
    sampled = False
    if total > cap:
        rng2 = random.Random(seed + 12345)
        behaviours = rng2.sample(behaviours, cap)
        sampled = True
    # small campaigns take every palette for every behaviour (no dependence on the seed's rotation); large ones
    # take one palette per behaviour, rotating with the seed
    budget = min(cap, 2500) if tier == "quick" else cap
    allp = len(behaviours) * len(camp["palettes"]) <= budget
    stimuli = P.to_driver_stimuli(behaviours, camp["palettes"], seed, all_palettes=allp,
                                  tolerant=camp.get("tolerant", False))
    del behaviours
    for s in stimuli:
        s["judge"] = camp["judge"]
    t1 = time.time()
    # replay and judge in slices: the recorded traces of a slice (every live table before and after every call) are
    # dropped once judged; only their counters and the traces with a failing clause are kept
    SLICE = 12000
    stats = new_trace_stats()
    kept, fails = [], []
    jtot = {"states": 0, "transitions": 0, "cnt": 0, "clauses": collections.Counter()}
    replay_s = judge_s = 0.0
    for a in range(0, len(stimuli), SLICE):
        ta = time.time()
        traces = P.replay(stimuli[a:a + SLICE], wd)
        tb = time.time()
        j = P.judge(traces, wd, module=camp["judge"][0], cfg=camp["judge"][1], name="tr_" + camp["name"])
        judge_s += time.time() - tb
        replay_s += tb - ta
        add_trace_stats(stats, traces)
        bad = {f["id"] for f in j["fails"]}
        kept.extend(t for t in traces if t["id"] in bad or camp.get("keep_traces"))
        fails.extend(j["fails"])
        for k_ in ("states", "transitions", "cnt"):
            jtot[k_] += j[k_]
        jtot["clauses"].update(j["clauses"])
        del traces
    jtot["fails"] = fails
    summary = {"name": camp["name"], "behaviours_enumerated": total, "behaviours_replayed": len(stimuli),
               "sampled": sampled, "all_palettes_per_behaviour": allp, "gen": gstats,
               "gen_states": sum(g["states"] for g in gstats), "gen_transitions": sum(g["transitions"] for g in gstats),
               "traces": stats["traces"], "judge_states": jtot["states"], "fails": len(fails),
               "gen_s": round(t1 - t0, 1), "replay_s": round(replay_s, 1), "judge_s": round(judge_s, 1)}
    print("  campaign %-28s behaviours=%d replayed=%d gen=%.1fs exec=%.1fs judge=%.1fs fails=%d"
          % (camp["name"], total, len(stimuli), t1 - t0, replay_s, judge_s, len(fails)), flush=True)
    return {"summary": summary, "stimuli": stimuli, "traces": kept, "judge": jtot, "trace_stats": stats}


def new_trace_stats():
    return {"traces": 0, "events": 0, "palettes": collections.Counter(), "calls": collections.Counter(),
            "rep": collections.Counter()}


def add_trace_stats(stats, traces):
    for t in traces:
        stats["traces"] += 1
        stats["events"] += len(t["events"])
        stats["palettes"]["+".join(t["pal"]) if isinstance(t.get("pal"), list) else str(t.get("pal"))] += 1
        for ev in t["events"]:
            stats["calls"][ev.get("call", ev.get("act", "?"))] += 1
            for tb in ev.get("pre", {}).values():
                rp = tb.get("rep") if isinstance(tb, dict) else None
                if rp:
                    stats["rep"]["%s:%s|%s|zeros=%s" % (ev["call"], rp["fmt"], "sorted" if rp["sorted"] else "unsorted",
                                                        "y" if rp["stored_zeros"] else "n")] += 1
    return stats


def rejudge(stim, wd):
    if "recorded_event" in stim:             # an event recorded from the repository's own test-suite
        from . import tlcrun
        path = os.path.join(wd, "rec_one.ndjson")
        with open(path, "w") as f:
            f.write(json.dumps(stim["recorded_event"]) + "\n")
        r = tlcrun.run_tlc("BiomRecTrace.tla", "BiomRecTrace.cfg", env={"TRACE_FILE": path}, workers=1,
                           metadir=os.path.join(wd, "rec_meta"))
        if not r["completed"]:
            raise P.Machinery(r["tail"])
        recs = tlcrun.json_lines(r["lines"])
        return {"fails": [x for x in recs if x["k"] == "FAIL"]}
    stim = dict(stim)
    stim.setdefault("id", 1)
    if stim.get("driver") == "draws":
        from . import draws
        jm = stim["judge"]
        return P.judge([draws.redo(stim, wd)], wd, module=jm[0], cfg=jm[1], njvm=1)
    traces = P.replay([stim], wd, nproc=1, driver=stim.get("driver", "driver"))
    jm = stim.get("judge", ["BiomTrace.tla", "BiomTrace.cfg"])
    return P.judge(traces, wd, module=jm[0], cfg=jm[1], njvm=1)
