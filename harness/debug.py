"""python -m harness.debug <campaign> [tier] : run one campaign and show one failing event per clause"""
import json, sys
sys.path.insert(0, "/repo")
from harness import pipeline as P, families as F

def brief(t):
    return {k: t[k] for k in ("obs", "samp", "mat", "omd", "smd", "type") if k in t}

def main():
    camp = F.CAMPAIGNS[sys.argv[1]]
    tier = sys.argv[2] if len(sys.argv) > 2 else "quick"
    wd = P.workdir("debug")
    c = F.run_campaign(camp, tier, 0, wd)
    seen = {}
    tr = {t["id"]: t for t in c["traces"]}
    st = {s["id"]: s for s in c["stimuli"]}
    for f in c["judge"]["fails"]:
        seen.setdefault(f["clause"], []).append(f)
    for cl, fs in seen.items():
        f = fs[0]
        ev = tr[f["id"]]["events"][f["l"] - 1]
        print("=====", cl, len(fs), "fails; sample: pal", st[f["id"]]["pal"], "tag", st[f["id"]]["tag"])
        print(" steps:", json.dumps(st[f["id"]]["steps"])[:900])
        print(" event", f["l"], ev["call"], json.dumps(ev["args"]), "out", ev["out"])
        for s, t in ev["pre"].items():
            print("  pre ", s, json.dumps(brief(t)))
        for s, t in ev["post"].items():
            print("  post", s, json.dumps(brief(t)))
        o = dict(ev["obs"])
        for k in list(o):
            if isinstance(o[k], dict) and "obs" in o[k]:
                o[k] = brief(o[k])
        print("  obs ", json.dumps(o)[:1500])
    import shutil; shutil.rmtree(wd, ignore_errors=True)

main()
