"""The three compiled kernels (_filter, _transform, _subsample) run from prebuilt .so files.
Cython is not available in this sandbox, so:
  * a .so older than its generated .c is rebuilt from the .c with gcc (a change made in the
    generated C, or a regenerated .c, takes effect);
  * a .pyx whose source lines differ from the source lines Cython embedded as comments in the
    .c is reported as stale (the .pyx edit cannot have changed behaviour for the test-suite
    either); that is a warning in the evidence, never a verdict.
"""
import glob
import os
import re
import subprocess
import sysconfig

BIOM = os.path.join(os.environ.get("VERIF_REPO", "/repo"), "biom")


def _pyx_lines_in_c(cpath, pyxname):
    """{line number: source text} as embedded by Cython next to '# <<<<<<<<<<<<<<'."""
    out = {}
    pat = re.compile(r'/\* "biom/%s":(\d+)\s*$' % re.escape(pyxname))
    with open(cpath, errors="replace") as f:
        lines = f.read().split("\n")
    i = 0
    while i < len(lines):
        m = pat.search(lines[i])
        if m:
            for j in range(i + 1, min(i + 8, len(lines))):
                if "# <<<<<<<<<<<<<<" in lines[j]:
                    out[int(m.group(1))] = lines[j][3:].split("# <<<<<<<<<<<<<<")[0].rstrip()
                    break
        i += 1
    return out


def ensure_kernels():
    info = {}
    for pyx in sorted(glob.glob(os.path.join(BIOM, "_*.pyx"))):
        name = os.path.basename(pyx)[:-4]
        c = os.path.join(BIOM, name + ".c")
        sos = glob.glob(os.path.join(BIOM, name + ".*.so"))
        st = {"rebuilt": False, "stale_pyx_lines": 0}
        if os.path.exists(c) and sos:
            so = sos[0]
            if os.path.getmtime(c) > os.path.getmtime(so) + 1:
                import numpy
                cmd = ["gcc", "-O2", "-shared", "-fPIC", "-w", "-I" + numpy.get_include(),
                       "-I" + sysconfig.get_paths()["include"], c, "-o", so]
                r = subprocess.run(cmd, stdout=subprocess.PIPE, stderr=subprocess.STDOUT, text=True)
                st["rebuilt"] = r.returncode == 0
                if r.returncode != 0:
                    st["rebuild_error"] = r.stdout[-400:]
            emb = _pyx_lines_in_c(c, name + ".pyx")
            src = open(pyx, errors="replace").read().split("\n")
            stale = 0
            for ln, text in emb.items():
                cur = src[ln - 1].rstrip() if ln - 1 < len(src) else None
                if cur is None or cur.strip() != text.strip():
                    stale += 1
            st["stale_pyx_lines"] = stale
            if stale:
                st["warning"] = ("%s.pyx differs from the source the compiled kernel was generated from; "
                                 "Cython is not installed, behaviour is taken from the compiled kernel" % name)
        info[name] = st
    return info
