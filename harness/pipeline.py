"""gen (TLC) -> replay (real code) -> judge (TLC) -> triage -> evidence."""
import collections
import concurrent.futures as cf
import hashlib
import json
import multiprocessing as mp
import os
import random
import shutil
import sys
import time

from . import tlcrun

ROOT = os.path.dirname(os.path.dirname(os.path.abspath(__file__)))
NPROC = int(os.environ.get("VERIF_NPROC", str(min(16, os.cpu_count() or 4))))


class Machinery(Exception):
    """a failure of the verification machinery itself (exit 2), never a verdict"""


def workdir(tag):
    d = os.path.join(ROOT, ".work", "%s-%d" % (tag, os.getpid()))
    shutil.rmtree(d, ignore_errors=True)
    os.makedirs(d)
    return d


# ------------------------------------------------------------------ generation
def generate(phases, wd, module="MC_Gen.tla", cfg="MC_Gen.cfg", simulate=None, extra_env=None, timeout=900,
             name="gen", extra=None, envvar="GEN_PHASES"):
    """Ask TLC for every behaviour of the model under `phases`.  Returns (stimuli, stats)."""
    pf = os.path.join(wd, name + "_phases.json")
    with open(pf, "w") as f:
        json.dump(phases, f)
    env = {envvar: pf}
    env.update(extra_env or {})
    r = tlcrun.run_tlc(module, cfg, env=env, workers=1, metadir=os.path.join(wd, name + "_meta"),
                       timeout=timeout, simulate=simulate, extra=extra)
    if not r["completed"]:
        raise Machinery("TLC generation run failed (%s):\n%s" % (r["cmd"], r["tail"]))
    stimuli = tlcrun.json_lines(r["lines"])
    shutil.rmtree(os.path.join(wd, name + "_meta"), ignore_errors=True)
    stats = {"states": r.get("states", 0), "transitions": r.get("transitions", 0), "depth": r.get("depth", 0),
             "behaviours": len(stimuli), "wall_s": round(r["wall_s"], 2), "phases": phases, "module": module,
             "mode": ("simulate " + simulate) if simulate else "exhaustive"}
    return stimuli, stats


def dedup(stimuli):
    seen, out = set(), []
    for s in stimuli:
        k = hashlib.sha1(json.dumps(s, sort_keys=True).encode()).hexdigest()
        if k not in seen:
            seen.add(k)
            out.append(s)
    return out


COUNT_CALLS = {"subsample"}                 # need true integer counts: no value scaling at all
SUM_KINDS = {"sum"}


def _compatible(pal, steps):
    """A value palette is an exact homomorphism only for the calls it was designed for: counts must
    stay integers for subsampling, and the `adversarial` images are not closed under addition."""
    idp, valp = pal
    calls = {s_["call"] for s_ in steps}
    if idp == "ctrl" and calls & {"rt_tsv", "rt_hdf5", "subset_read", "summary"}:
        idp = "unicode"                 # control characters are in the domain of the JSON property only
    if valp == "scale_tiny" and calls - {"norm", "pa", "read", "sort_order", "transpose", "sort", "filter", "remove_empty", "head", "update_ids", "copy", "align_df", "align_to"}:
        valp = "scale_down"             # the subnormal scale is exact for quotients and presence only
    if any(s_["call"] == "summary" and s_["args"].get("kind", "").startswith("cli_") for s_ in steps):
        return [idp, "plain"]           # printed reports are parsed at face value
    arith = calls & {"merge", "concat", "collapse", "norm", "rankdata", "pa", "transform", "from_adjacency",
                     "summary"} or any(
        s_["call"] == "read" and s_["args"].get("kind") in SUM_KINDS for s_ in steps)
    if calls & COUNT_CALLS:
        return [idp, "plain"]
    if arith and valp == "adversarial":
        return [idp, "plain"]
    return [idp, valp]


def to_driver_stimuli(behaviours, palettes, seed, all_palettes=False, tolerant=False, start_id=1):
    """Attach builds and palettes.  palettes: list of [idp, valp].  Quick: one palette per
    behaviour, rotating (offset by the seed) so that every palette is used; thorough: all."""
    out = []
    n = start_id
    for i, b in enumerate(behaviours):
        init = {}
        for slot, t in b["init"].items():
            t = dict(t)
            t.pop("lk", None)
            t["build"] = b.get("builds", {}).get(slot, "dense")
            if slot == "a" and b.get("gmd"):
                t["gmd"] = b["gmd"]
            init[slot] = t
        pals = palettes if all_palettes else [palettes[(i + seed) % len(palettes)]]
        pals = [_compatible(p, b["steps"]) for p in pals]
        for p in pals:
            out.append({"id": n, "tag": b.get("tag", ""), "init": init, "steps": b["steps"], "pal": p,
                        "tolerant": tolerant})
            n += 1
    return out


# ---------------------------------------------------------------------- replay
def _replay_chunk(args):
    chunk, wd, modname = args
    sys.path.insert(0, os.environ.get("VERIF_REPO", "/repo"))
    import importlib
    driver = importlib.import_module("harness." + modname)
    return driver.run_batch(chunk, wd)


def replay(stimuli, wd, nproc=NPROC, driver="driver"):
    """Run every stimulus through the real code (fresh worker processes importing /repo)."""
    if not stimuli:
        return []
    k = max(1, min(nproc * 4, len(stimuli) // 50 + 1))
    chunks = [stimuli[i::k] for i in range(k)]
    ctx = mp.get_context("fork")
    with ctx.Pool(min(nproc, k)) as pool:
        res = pool.map(_replay_chunk, [(c, wd, driver) for c in chunks])
    traces = [t for r in res for t in r]
    bad = [t for t in traces if "machinery_error" in t]
    if bad:
        raise Machinery("driver failed on %d stimuli; first:\n%s" % (len(bad), bad[0]["machinery_error"]))
    traces.sort(key=lambda t: t["id"])
    return traces


# ----------------------------------------------------------------------- judge
def _judge_chunk(args):
    i, path, wd, module, cfg, n_expected = args
    r = tlcrun.run_tlc(module, cfg, env={"TRACE_FILE": path}, workers=1,
                       metadir=os.path.join(wd, "judge_meta_%d" % i), timeout=1800)
    shutil.rmtree(os.path.join(wd, "judge_meta_%d" % i), ignore_errors=True)
    if not r["completed"]:
        return {"error": "judge TLC run failed (%s):\n%s" % (r["cmd"], r["tail"])}
    recs = tlcrun.json_lines(r["lines"])
    return {"recs": recs, "states": r.get("states", 0), "transitions": r.get("transitions", 0)}


NJVM = int(os.environ.get("VERIF_NJVM", "8"))     # more JVMs than this contend badly on 16 cores


def judge(traces, wd, module="BiomTrace.tla", cfg="BiomTrace.cfg", njvm=None, name="traces"):
    """TLC evaluates every clause at every event.  Returns dict(fails, done, states, ...)."""
    if not traces:
        return {"fails": [], "done": {}, "states": 0, "transitions": 0, "clauses": collections.Counter(), "cnt": 0}
    k = max(1, min(njvm or NJVM, len(traces) // 40 + 1))
    jobs = []
    for i in range(k):
        part = traces[i::k]
        path = os.path.join(wd, "%s_%d.ndjson" % (name, i))
        with open(path, "w") as f:
            for t in part:
                f.write(json.dumps(t) + "\n")
        jobs.append((i, path, wd, module, cfg, len(part)))
    with cf.ThreadPoolExecutor(max_workers=k) as ex:
        results = list(ex.map(_judge_chunk, jobs))
    fails, done = [], {}
    states = transitions = cnt = 0
    clauses = collections.Counter()
    for r in results:
        if "error" in r:
            raise Machinery(r["error"])
        states += r["states"]
        transitions += r["transitions"]
        for rec in r["recs"]:
            if rec["k"] == "FAIL":
                fails.append(rec)
            elif rec["k"] == "DONE":
                done[rec["id"]] = rec
                cnt += rec["cnt"]
                for c in rec["seen"]:
                    clauses[c] += 1
    byid = {t["id"]: t for t in traces}
    for tid, t in byid.items():
        d = done.get(tid)
        if d is None or d["n"] != len(t["events"]):
            raise Machinery("judge did not consume trace %s completely (%s of %d events)"
                            % (tid, d and d["n"], len(t["events"])))
    return {"fails": fails, "done": done, "states": states, "transitions": transitions,
            "clauses": clauses, "cnt": cnt}


# ---------------------------------------------------------------- spec checks
def prove(module, deps, wd, timeout=1500, name="tlaps"):
    """Run the TLA+ proof system on spec/<module> (deps = the spec modules it extends).  Every obligation
    must be proved; anything else is a machinery failure (a proof TLAPS rejects is never used)."""
    import re
    import subprocess
    import zipfile
    d = os.path.join(wd, name)
    shutil.rmtree(d, ignore_errors=True)
    os.makedirs(os.path.join(d, "cm"))
    for f in [module] + list(deps):
        shutil.copy(os.path.join(tlcrun.SPEC_DIR, f), d)
    jar = [x for x in tlcrun.TLA_CP.split(":") if "CommunityModules" in x][0]
    with zipfile.ZipFile(jar) as z:
        for n in z.namelist():
            if n.endswith(".tla") and "/" not in n:
                z.extract(n, os.path.join(d, "cm"))
    t0 = time.time()
    p = subprocess.run(["tlapm", "--threads", str(NPROC), "-I", os.path.join(d, "cm"), module], cwd=d,
                       stdout=subprocess.PIPE, stderr=subprocess.STDOUT, text=True, timeout=timeout)
    m = re.search(r"All (\d+) obligations? proved", p.stdout)
    shutil.rmtree(d, ignore_errors=True)
    if p.returncode != 0 or not m:
        raise Machinery("TLAPS did not prove %s:\n%s" % (module, p.stdout[-1500:]))
    return {"module": module, "cfg": "tlapm", "obligations_proved": int(m.group(1)), "states": 0, "transitions": 0,
            "depth": 0, "wall_s": round(time.time() - t0, 2)}



def model_check(module, cfg, wd, env=None, workers=NPROC, timeout=1200, name="mc", extra=None):
    r = tlcrun.run_tlc(module, cfg, env=env, workers=workers, metadir=os.path.join(wd, name + "_meta"),
                       timeout=timeout, extra=extra)
    shutil.rmtree(os.path.join(wd, name + "_meta"), ignore_errors=True)
    if not r["completed"]:
        raise Machinery("TLC rejected the specification itself (%s); a spec TLC rejects is never used "
                        "as a judge:\n%s" % (r["cmd"], r["tail"]))
    return {"module": module, "cfg": cfg, "states": r.get("states", 0), "transitions": r.get("transitions", 0),
            "depth": r.get("depth", 0), "wall_s": round(r["wall_s"], 2)}
