"""Replays behaviours of BiomErr (seterr / seterrcall / errstate enter+exit / triggering calls)
through biom.err and real table operations, and records what the implementation does.
One fresh interpreter state per trace is approximated by resetting the profile and callbacks."""
import contextlib
import io
import sys
import traceback
import warnings

import numpy as np

KINDS = ["empty", "obssize", "sampsize", "obsdup", "sampdup", "obsmdsize", "sampmdsize"]
DEFAULT = {k: ("ignore" if k == "empty" else "raise") for k in KINDS}


class Block(Exception):
    pass


def run_stimulus(stim):
    import biom.err as E
    from biom import Table
    from biom.exception import TableException
    # reset: default profile, default (no-op) callbacks
    E.seterr(**DEFAULT)
    for k in KINDS:
        E.seterrcall(k, lambda x: None)
    # tables needed by the triggering calls are built while the profile is the default one
    full = Table(np.array([[1.0, 2.0], [3.0, 4.0]]), ["o1", "o2"], ["s1", "s2"])
    nosamp = full.filter([], axis="sample", inplace=False)          # 2 x 0, built under 'ignore'
    called = []

    def make_cb(tok):
        def cb(item):
            ok = hasattr(item, "ids") and hasattr(item, "matrix_data")
            called.append((tok, ok))
            return None
        return cb
    stack = []
    events = []
    for st in stim["steps"]:
        ev = dict(st)
        act = st["act"]
        try:
            if act == "seterr":
                try:
                    ret = E.seterr(**{k: v for k, v in st["req"]})
                    ev["out"] = "ok"
                    ev["ret"] = dict(ret)
                except KeyError:
                    ev["out"] = "KeyError"
                    ev["ret"] = dict(DEFAULT)
            elif act == "enter":
                cm = E.errstate(**{k: v for k, v in st["req"]})
                try:
                    cm.__enter__()
                    stack.append(cm)
                    ev["out"] = "ok"
                except KeyError:
                    ev["out"] = "KeyError"
            elif act in ("exit", "exit_exc"):
                if stack:
                    cm = stack.pop()
                    if act == "exit":
                        cm.__exit__(None, None, None)
                        ev["out"] = "ok"
                    else:
                        exc = Block("leaving the block by exception")
                        try:
                            swallowed = cm.__exit__(Block, exc, None)
                            ev["out"] = "swallowed" if swallowed else "propagated"
                        except Block:
                            ev["out"] = "propagated"
                else:
                    ev["out"] = "ok" if act == "exit" else "propagated"
            elif act == "seterrcall":
                try:
                    E.seterrcall(st["kind"], make_cb(st["cb"]))
                    ev["out"] = "ok"
                except KeyError:
                    ev["out"] = "KeyError"
            elif act in ("trigger", "noerror"):
                del called[:]
                react, extra = observe(lambda: fire(st, Table, full, nosamp), called, TableException)
                ev["react"] = react
                ev["extra"] = extra
                ev["cb_arg_ok"] = all(ok for _, ok in called) if called else False
                ev["out"] = "ok"
            else:
                raise ValueError(act)
        except Exception:
            ev["out"] = "driver-error"
            ev["detail"] = traceback.format_exc()[-300:]
        ev["prof"] = dict(E.geterr())
        events.append(ev)
    while stack:                                    # leave the remaining blocks (not logged)
        try:
            stack.pop().__exit__(None, None, None)
        except Exception:
            pass
    E.seterr(**DEFAULT)
    return {"id": stim.get("id", 0), "pal": ["err", "plain"], "events": events}


def fire(st, Table, full, nosamp):
    """an input that trips exactly st['kind'] at st['site'] (or nothing for noerror)"""
    if st["act"] == "noerror":
        if st["site"] == "constructor":
            Table(np.array([[1.0, 2.0], [3.0, 4.0]]), ["a", "b"], ["x", "y"])
        else:
            full.filter(["s1"], axis="sample", inplace=False)
        return
    k, site = st["kind"], st["site"]
    m = np.array([[1.0, 2.0], [3.0, 4.0]])
    if site == "constructor":
        if k == "empty":
            Table(np.zeros((0, 0)), [], [])
        elif k == "obsdup":
            Table(m, ["a", "a"], ["x", "y"])
        elif k == "sampdup":
            Table(m, ["a", "b"], ["x", "x"])
        elif k == "obsmdsize":
            Table(m, ["a", "b"], ["x", "y"], observation_metadata=[{"k": "v"}])
        elif k == "sampmdsize":
            Table(m, ["a", "b"], ["x", "y"], sample_metadata=[{"k": "v"}, {"k": "w"}, {"k": "z"}])
        else:
            raise ValueError(k)
    elif site == "constructor_zero_length_md":          # a metadata sequence of length zero next to two IDs
        if k == "obsmdsize":
            Table(m, ["a", "b"], ["x", "y"], observation_metadata=[])
        elif k == "sampmdsize":
            Table(m, ["a", "b"], ["x", "y"], sample_metadata=[])
        else:
            raise ValueError(k)
    elif site == "filter_inplace":
        full.copy().filter([], axis="sample", inplace=True)
    elif site == "filter_copy":
        full.filter([], axis="observation", inplace=False)
    elif site == "update_ids":
        nosamp.update_ids({"o1": "p1", "o2": "p2"}, axis="observation", inplace=False)
    elif site == "collapse":
        nosamp.collapse(lambda i, md: "g", axis="sample", norm=False)
    else:
        raise ValueError(site)


def observe(fn, called, TableException):
    """(reaction, extra): the reaction that happened and anything else that happened besides it"""
    out = io.StringIO()
    kinds = []
    with warnings.catch_warnings(record=True) as w:
        warnings.simplefilter("always")
        old = sys.stdout
        sys.stdout = out
        try:
            # biom.err binds sys.stdout at import time (from sys import stdout): patch its reference too
            import biom.err as E
            saved = E.stdout
            E.stdout = out
            try:
                fn()
            except TableException:
                kinds.append("raised")
            except Exception as e:          # noqa
                kinds.append("other-exception:" + type(e).__name__)
            finally:
                E.stdout = saved
        finally:
            sys.stdout = old
    ours = [x for x in w if "scipy" not in str(x.filename) and "Sparse" not in type(x.message).__name__]
    if ours:
        kinds.append("warned")
    if out.getvalue().strip():
        kinds.append("printed")
    if called:
        toks = sorted({t for t, _ in called})
        kinds.append("called:" + "+".join(toks))
    if not kinds:
        return "passed", "none"
    return kinds[0], ("none" if len(kinds) == 1 else "+".join(kinds[1:]))


def run_batch(stimuli, wd=None):
    out = []
    for s in stimuli:
        try:
            out.append(run_stimulus(s))
        except Exception:
            out.append({"id": s.get("id", 0), "machinery_error": traceback.format_exc()})
    return out
