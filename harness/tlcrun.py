"""Running TLC and reading what it prints."""
import json
import os
import re
import shutil
import subprocess
import time

SPEC_DIR = os.path.join(os.path.dirname(os.path.dirname(os.path.abspath(__file__))), "spec")
TLA_CP = "/opt/veriftools/tla/tla2tools.jar:/opt/veriftools/tla/CommunityModules-deps.jar"


class TLCError(Exception):
    pass


def _classpath():
    # the `tlc` wrapper on PATH adds the CommunityModules; reuse it
    return shutil.which("tlc")


def run_tlc(module, cfg, env=None, workers=1, metadir=None, timeout=1200, extra=None, simulate=None,
            heap="2g"):
    """Run TLC on spec/<module>.tla with spec/<cfg>.  Returns dict(lines, states, distinct, depth, ok, raw_tail)."""
    e = dict(os.environ)
    e.update(env or {})
    e.setdefault("JAVA_OPTS", "")
    gc = ["-XX:+UseSerialGC", "-XX:CICompilerCount=2", "-XX:TieredStopAtLevel=1"] if workers == 1 \
        else ["-XX:+UseParallelGC"]
    cmd = ["java"] + gc + ["-Xss32m", "-Xmx" + heap, "-cp", TLA_CP, "tlc2.TLC",
           "-workers", str(workers), "-noGenerateSpecTE", "-config", cfg]
    if metadir:
        os.makedirs(metadir, exist_ok=True)
        cmd += ["-metadir", metadir]
    if simulate:
        cmd += ["-simulate", simulate]
    cmd += list(extra or [])
    cmd += [module]
    t0 = time.time()
    try:
        p = subprocess.run(cmd, cwd=SPEC_DIR, env=e, stdout=subprocess.PIPE, stderr=subprocess.STDOUT,
                           timeout=timeout, text=True, errors="replace")
    except subprocess.TimeoutExpired as ex:
        raise TLCError("TLC timed out after %ss: %s" % (timeout, " ".join(cmd))) from ex
    out = p.stdout
    lines = out.splitlines()
    res = {"lines": lines, "wall_s": time.time() - t0, "rc": p.returncode, "cmd": " ".join(cmd)}
    m = re.search(r"(\d[\d,]*) states generated, (\d[\d,]*) distinct states found", out)
    if m:
        res["states"] = int(m.group(2).replace(",", ""))
        res["transitions"] = int(m.group(1).replace(",", ""))
    m = re.search(r"depth of the complete state graph search is (\d+)", out)
    if m:
        res["depth"] = int(m.group(1))
    res["completed"] = "Model checking completed. No error has been found." in out or \
        (simulate is not None and p.returncode == 0)
    res["tail"] = "\n".join(lines[-40:])
    return res


def json_lines(lines):
    """PrintT(ToJson(x)) prints one TLA+ string literal per line: "{\\"k\\":...}" """
    out = []
    for ln in lines:
        if ln.startswith('"{') or ln.startswith('"['):
            try:
                out.append(json.loads(json.loads(ln)))
            except Exception as ex:
                raise TLCError("unparsable TLC output line: %r" % ln[:200]) from ex
    return out
