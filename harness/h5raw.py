"""Independent decoder of BIOM 2.1 HDF5 files: raw h5py only, written against
doc/documentation/format_versions/biom-2.1.rst.  Shares no code with biom.
Produces the abstract image `raw` that BiomFiles.tla judges (C04)."""
import h5py
import numpy as np

from . import abstraction as A


def _txt(x):
    if isinstance(x, bytes):
        return x.decode("utf8", errors="replace")
    return str(x)


def _walk(f):
    groups, datasets = [], []

    def visit(name, obj):
        if isinstance(obj, h5py.Group):
            groups.append(name)
        elif isinstance(obj, h5py.Dataset):
            datasets.append(name)
    f.visititems(visit)
    return groups, datasets


def dump(path, pal, scale=None):
    """abstract image of the file; IDs / values are inverted through the palette"""
    with h5py.File(path, "r") as f:
        groups, datasets = _walk(f)
        at = f.attrs
        present = sorted(at.keys())

        def geta(k, default=""):
            return at[k] if k in at else default
        shape = [int(x) for x in np.asarray(geta("shape", [-1, -1])).ravel()]
        version = [int(x) for x in np.asarray(geta("format-version", [-1, -1])).ravel()]
        try:
            nnz = int(geta("nnz", -1))
        except Exception:
            nnz = -1
        attrs = {"present": present, "id": A.tid_abstract(pal, _txt(geta("id"))), "type": A.type_abstract(_txt(geta("type"))),
                 "url": _txt(geta("format-url")), "gen": _txt(geta("generated-by")),
                 "date": _txt(geta("creation-date")), "version": version, "shape": shape, "nnz": nnz}
        out = {"attrs": attrs, "groups": groups, "datasets": datasets}
        for axis, key in (("observation", "obs"), ("sample", "samp")):
            ax = {"ids": [], "md": [], "gmd": [], "data": [], "indices": [], "indptr": [],
                  "dt_data": "", "dt_indices": "", "dt_indptr": ""}
            if axis + "/ids" in f:
                ax["ids"] = [pal.id_inv(_txt(x)) for x in f[axis + "/ids"][:]]
            if axis + "/metadata" in f and isinstance(f[axis + "/metadata"], h5py.Group):
                for name, ds in f[axis + "/metadata"].items():
                    # a category must be a dataset with one entry per ID; anything else (a nested group) is logged
                    # with length -1 so that the clause about metadata datasets fails instead of the decoder
                    ln = int(ds.shape[0]) if isinstance(ds, h5py.Dataset) and len(ds.shape) >= 1 else -1
                    ax["md"].append({"name": pal.key_inv(name.replace("@@SLASH@@", "/")), "len": ln})
            if axis + "/group-metadata" in f and isinstance(f[axis + "/group-metadata"], h5py.Group):
                for name, ds in f[axis + "/group-metadata"].items():
                    ax["gmd"].append({"name": name, "text": _txt(ds[0])})
            m = axis + "/matrix/"
            if m + "data" in f:
                d = f[m + "data"]
                ax["dt_data"] = str(d.dtype)
                ax["data"] = [pal.val_inv(x, scale) for x in d[:]]
            if m + "indices" in f:
                d = f[m + "indices"]
                ax["dt_indices"] = str(d.dtype)
                ax["indices"] = [int(x) for x in d[:]]
            if m + "indptr" in f:
                d = f[m + "indptr"]
                ax["dt_indptr"] = str(d.dtype)
                ax["indptr"] = [int(x) for x in d[:]]
            out[key] = ax
    return out
