----------------------------- MODULE BiomFiles -----------------------------
(***************************************************************************)
(* Files.  The abstract image of a BIOM 2.1 HDF5 file as an independent    *)
(* decoder sees it (raw h5py, written against the format document), the    *)
(* well-formedness of that image (C04), and the round-trip / subset-read   *)
(* clauses for HDF5 (C01, C14), JSON (C02, C14) and classic TSV (C03).     *)
(*                                                                         *)
(* raw == [attrs    : [present : Seq(STRING), id, type, url, gen, date : STRING,                *)
(*                     version : Seq(Int), shape : Seq(Int), nnz : Int],                        *)
(*         groups   : Seq(STRING), datasets : Seq(STRING),   (paths present in the file)        *)
(*         obs, samp : [ids : Seq(Id), md : Seq([name, len]), gmd : Seq([name, text]),          *)
(*                      data : Seq(Value), indices, indptr : Seq(Int),                          *)
(*                      dt_data, dt_indices, dt_indptr : STRING]]                               *)
(* Offsets and indices are 0-based as stored.                                                   *)
(***************************************************************************)
EXTENDS BiomProps3

ReqAttrs    == {"id", "type", "format-url", "format-version", "generated-by", "creation-date", "shape", "nnz"}
ReqGroups   == {"observation", "observation/matrix", "observation/metadata", "observation/group-metadata",
                "sample", "sample/matrix", "sample/metadata", "sample/group-metadata"}
ReqDatasets == {"observation/ids", "observation/matrix/data", "observation/matrix/indices",
                "observation/matrix/indptr", "sample/ids", "sample/matrix/data", "sample/matrix/indices",
                "sample/matrix/indptr"}

\* one compressed view: nvec vectors over an inner axis of length ninner
ViewWellFormed(v, nvec, ninner, nnz) ==
  /\ Len(v.indptr) = nvec + 1
  /\ v.indptr[1] = 0
  /\ \A k \in 1..nvec : v.indptr[k] <= v.indptr[k + 1]
  /\ v.indptr[nvec + 1] = nnz
  /\ Len(v.indices) = nnz /\ Len(v.data) = nnz
  /\ \A k \in 1..Len(v.indices) : v.indices[k] >= 0 /\ v.indices[k] < ninner
  /\ \A k \in 1..Len(v.data) : ~IsZero(v.data[k])                 \* no stored zeros
ViewTypes(v) == v.dt_data = "float64" /\ v.dt_indices = "int32" /\ v.dt_indptr = "int32"

\* value of (vector k, inner position j) of a view: the stored entries of vector k at inner index j - 1
ViewCell(v, k, j) ==
  LET lo == v.indptr[k] + 1
      hi == v.indptr[k + 1]
      hits == {q \in lo..hi : v.indices[q] = j - 1}
  IN IF hits = {} THEN Zero ELSE SumOverSet(hits, [q \in hits |-> v.data[q]])
ViewShapeOk(v, nvec) ==
  /\ Len(v.indptr) = nvec + 1
  /\ \A k \in 1..nvec : v.indptr[k] >= 0 /\ v.indptr[k] <= v.indptr[k + 1] /\ v.indptr[k + 1] <= Len(v.indices)
  /\ Len(v.indices) = Len(v.data)
DecodeCSR(v, n, m) == [i \in 1..n |-> [j \in 1..m |-> ViewCell(v, i, j)]]     \* observation view
DecodeCSC(v, n, m) == [i \in 1..n |-> [j \in 1..m |-> ViewCell(v, j, i)]]     \* sample view

MdDatasetsOk(ax, t, axis) ==
  LET keys == IF Md(t, axis).has /\ Len(Md(t, axis).rows) > 0 THEN RowKeys(SeqSet(Md(t, axis).rows[1])) ELSE {}
  IN /\ {ax.md[k].name : k \in 1..Len(ax.md)} = keys
     /\ \A k \in 1..Len(ax.md) : ax.md[k].len = Len(Ids(t, axis))

\* C04: every clause about the file `raw` written for table t
Clauses_hdf5_file_t(raw, t, type) ==
  LET n == Len(t.obs)
      m == Len(t.samp)
      nnz == Nnz(t)
  IN [C04_required_attributes_present |-> ReqAttrs \subseteq SeqSet(raw.attrs.present),
      C04_required_groups_and_datasets_present |->
         ReqGroups \subseteq SeqSet(raw.groups) /\ ReqDatasets \subseteq SeqSet(raw.datasets),
      C04_shape_and_nnz_are_true |-> raw.attrs.shape = <<n, m>> /\ raw.attrs.nnz = nnz,
      C04_format_version_and_url |-> raw.attrs.version = <<2, 1>> /\ raw.attrs.url = "http://biom-format.org",
      C04_type_attribute |-> raw.attrs.type = type,
      C04_ids_one_per_id_in_axis_order |-> raw.obs.ids = t.obs /\ raw.samp.ids = t.samp,
      C04_metadata_datasets_one_entry_per_id |->
         MdDatasetsOk(raw.obs, t, "observation") /\ MdDatasetsOk(raw.samp, t, "sample"),
      C04_element_types |-> ViewTypes(raw.obs) /\ ViewTypes(raw.samp),
      C04_observation_view_well_formed |-> ViewWellFormed(raw.obs, n, m, nnz),
      C04_sample_view_well_formed |-> ViewWellFormed(raw.samp, m, n, nnz),
      C04_both_views_decode_to_the_table |->
         /\ ViewShapeOk(raw.obs, n) /\ ViewShapeOk(raw.samp, m)
         /\ DecodeCSR(raw.obs, n, m) = t.mat
         /\ DecodeCSC(raw.samp, n, m) = t.mat]

Clauses_hdf5_file(raw, t) == Clauses_hdf5_file_t(raw, t, t.type)

\* ----------------------------------------------------------------------- domains
RowsHomogeneous(md) ==
  (md.has /\ Len(md.rows) > 0) =>
    /\ \A k \in 1..Len(md.rows) : RowKeys(SeqSet(md.rows[k])) = RowKeys(SeqSet(md.rows[1]))
    /\ \A k \in 1..Len(md.rows) : \A e \in SeqSet(md.rows[k]) :
         /\ e[2] \in {"s", "i", "f", "b", "l"}
         /\ \A k2 \in 1..Len(md.rows) : \A e2 \in SeqSet(md.rows[k2]) :
              e2[1] = e[1] => (e2[2] = e[2] \/ {e[2], e2[2]} \subseteq {"i", "f", "b"})
         /\ (e[2] = "l") => (e[1] \in {"taxonomy", "collapsed_ids"} /\ Len(e[3]) > 0
                              /\ \A q \in 1..Len(e[3]) : e[3][q] # "")
         /\ (e[1] \in {"taxonomy", "collapsed_ids", "Taxonomy", "KEGG_Pathways"}) => e[2] = "l"
    /\ RowKeys(SeqSet(md.rows[1])) # {}
InDomainC01(t) == ~IsEmptyTable(t) /\ IsInj(t.obs) /\ IsInj(t.samp)
                  /\ RowsHomogeneous(t.omd) /\ RowsHomogeneous(t.smd)

\* A category is stored as ONE homogeneous dataset: when it holds whole numbers on some IDs and fractions on others
\* every value comes back as a float (7 reads back as 7.0, the same number); the canonical text of the value is
\* unchanged, only the kind of the whole numbers becomes "f".  Categories of one kind must keep their kind.
MixedNumeric(t, ax, key) ==
  LET es == UNION {RowAt(t, ax, k) : k \in 1..Len(Ids(t, ax))} IN
  (\E e \in es : e[1] = key /\ e[2] = "i") /\ (\E e \in es : e[1] = key /\ e[2] = "f")
H5Row(t, ax, k) == {IF e[2] = "i" /\ MixedNumeric(t, ax, e[1]) THEN <<e[1], "f", e[3]>> ELSE e : e \in RowAt(t, ax, k)}
H5MdSame(got, src, ax) ==
  /\ Len(Ids(got, ax)) = Len(Ids(src, ax))
  /\ \A k \in 1..Len(Ids(src, ax)) : RowAt(got, ax, k) = H5Row(src, ax, k)

\* ------------------------------------------------------------- C01 HDF5 round trip
\* ev.obs : [raw, wrote : "ok" | error, hdr : [gen, date, gmd_obs, gmd_samp] of the loaded table,
\*           src_hdr : what was passed to the writer / held by the source]
Clauses_rt_hdf5(ev) ==
  LET src == ev.pre[ev.recv]
      \* `biom convert` stamps the generic type "Table" on a table that has none
      wtype == IF ev.args.save_via = "cli" /\ src.type = "" THEN "Table" ELSE src.type
  IN
  IF ev.obs.wrote = "skipped" THEN [C01_out_of_domain |-> TRUE]
  ELSE IF ~InDomainC01(src)
  THEN \* outside C01's domain; C04 still covers empty-axis tables when the writer accepted them
       IF ev.obs.wrote = "ok" /\ RowsHomogeneous(src.omd) /\ RowsHomogeneous(src.smd) /\ IsInj(src.obs) /\ IsInj(src.samp)
       THEN Clauses_hdf5_file_t(ev.obs.raw, src, wtype) @@ [C01_out_of_domain |-> TRUE]
       ELSE [C01_out_of_domain |-> TRUE]
  ELSE IF ev.obs.wrote # "ok" THEN [C01_write_succeeds |-> FALSE, C04_write_succeeds |-> FALSE]
  ELSE Clauses_hdf5_file_t(ev.obs.raw, src, wtype) @@
       (IF Failed(ev) THEN [C01_file_loads_back |-> FALSE]
        ELSE LET got == ev.post[ev.res] IN
         [C01_ids_in_order |-> got.obs = src.obs /\ got.samp = src.samp,
          C01_values_bit_identical |-> got.mat = src.mat,
          C01_metadata_same |-> H5MdSame(got, src, "observation") /\ H5MdSame(got, src, "sample")
                                 /\ got.omd.has = src.omd.has /\ got.smd.has = src.smd.has,
          C01_table_type |-> got.type = wtype,
          C01_table_id_or_placeholder |-> got.tid = (IF src.tid = "" THEN "No Table ID" ELSE src.tid),
          C01_generated_by |-> ev.obs.hdr.gen = ev.obs.src_hdr.gen,
          C01_creation_date |-> ev.obs.hdr.date = ev.obs.src_hdr.date,
          C01_group_metadata_text |-> /\ SeqSet(ev.obs.hdr.gmd_obs) = SeqSet(ev.obs.src_hdr.gmd_obs)
                                      /\ SeqSet(ev.obs.hdr.gmd_samp) = SeqSet(ev.obs.src_hdr.gmd_samp),
          C07_inputs_unchanged |-> FrameRule(ev, {ev.res}),
          C16_writing_leaves_content_unchanged |-> FrameRule(ev, {ev.res})])

\* ------------------------------------------------------------- C02 JSON round trip
\* ev.obs : [wellformed_string, wellformed_stream : BOOLEAN, same_document : BOOLEAN, wrote, hdr, src_hdr,
\*           doc : [shape, nrows, ncols, ...]]
JsonMdOk(md) ==    \* JSON-representable metadata: anything except unknown objects
  md.has => \A k \in 1..Len(md.rows) : \A e \in SeqSet(md.rows[k]) : e[2] # "u"
Clauses_rt_json(ev) ==
  LET src == ev.pre[ev.recv] IN
  IF IsEmptyTable(src) \/ ~JsonMdOk(src.omd) \/ ~JsonMdOk(src.smd) THEN [C02_out_of_domain |-> TRUE]
  ELSE IF ev.obs.wrote # "ok" THEN [C02_write_succeeds |-> FALSE]
  ELSE [C02_text_is_well_formed_json |-> ev.obs.wellformed_string /\ ev.obs.wellformed_stream,
        C02_streamed_form_is_same_document |-> ev.obs.same_document] @@
       (IF Failed(ev) THEN [C02_text_reads_back |-> FALSE]
        ELSE LET got == ev.post[ev.res] IN
         [C02_ids_in_order |-> got.obs = src.obs /\ got.samp = src.samp,
          C02_values_exact |-> got.mat = src.mat,
          C02_metadata_same |-> MdEq(got, src, "observation") /\ MdEq(got, src, "sample"),
          C02_table_type |-> got.type = src.type,
          C02_generated_by |-> ev.obs.hdr.gen = ev.obs.src_hdr.gen,
          C02_creation_date |-> ev.obs.hdr.date = ev.obs.src_hdr.date,
          C07_inputs_unchanged |-> FrameRule(ev, {ev.res}),
          C16_writing_leaves_content_unchanged |-> FrameRule(ev, {ev.res})])

\* -------------------------------------------------------------- C03 TSV round trip
\* args.header_key : "" or the one exported observation-metadata category
Clauses_rt_tsv(ev) ==
  LET src == ev.pre[ev.recv]
      key == ev.args.header_key
      \* the category is exported for the observations that have it (as a non-empty list of text)
      exportable == key = "" \/ (src.omd.has /\ \E k \in 1..Len(src.omd.rows) :
                                   \E e \in SeqSet(src.omd.rows[k]) : e[1] = key /\ e[2] = "l" /\ Len(e[3]) > 0)
      hasKey(k) == \E e \in RowAt(src, "observation", k) : e[1] = key /\ e[2] = "l" /\ Len(e[3]) > 0
      allHave == key = "" \/ \A k \in 1..Len(src.obs) : hasKey(k)
  IN IF IsEmptyTable(src) \/ ~exportable \/ ev.obs.wrote = "skipped"
        \* the command's own formatter ('; '.join) needs the category on every observation
        \/ (ev.args.save_via = "cli" /\ ~allHave)
     THEN [C03_out_of_domain |-> TRUE]
     ELSE IF ev.obs.wrote # "ok" THEN [C03_write_succeeds |-> FALSE]
     ELSE IF Failed(ev) THEN [C03_text_reads_back |-> FALSE]
     ELSE LET got == ev.post[ev.res] IN
      [C03_ids_in_order |-> got.obs = src.obs /\ got.samp = src.samp,
       C03_values_exact |-> got.mat = src.mat,
       C03_exported_category_preserved |->
          key # "" =>
            \A k \in 1..Len(src.obs) : hasKey(k) =>
               {e \in RowAt(got, "observation", k) : e[1] = key} = {e \in RowAt(src, "observation", k) : e[1] = key},
       C07_inputs_unchanged |-> FrameRule(ev, {ev.res}),
       C16_writing_leaves_content_unchanged |-> FrameRule(ev, {ev.res})]

\* ------------------------------------------------------------------ C14 subset read
\* The driver wrote recv to a file, read the WHOLE file back (obs.whole) and read it restricted to
\* args.ids on args.axis through args.variant (post[res]).  Reference = filter(whole), then, for the
\* variants documented to do so, drop other-axis vectors that became all-zero.
DropsEmpties(variant) == variant \notin {"from_hdf5_nomd", "cli_subset_json", "cli_subset_hdf5_keep"}
StripMd(t) == [t EXCEPT !.omd = NoMd, !.smd = NoMd]
Clauses_subset_read(ev) ==
  LET a == ev.args
      whole == ev.obs.whole
      known == SeqSet(a.ids) \subseteq SeqSet(Ids(whole, a.axis))
      f1 == FilterIds(whole, SeqSet(a.ids), a.axis, FALSE)
      f2 == IF DropsEmpties(a.variant) THEN DropEmpty1(f1, Other(a.axis)) ELSE f1
      want == IF a.variant = "from_hdf5_nomd" THEN StripMd(f2) ELSE f2
  IN IF ev.obs.wrote # "ok" \/ ev.obs.whole_out # "ok" \/ a.ids = <<>> THEN [C14_out_of_domain |-> TRUE]
     ELSE IF ~known
     THEN [C14_unknown_id_refused |-> (a.variant \in {"from_hdf5", "from_hdf5_nomd", "parse_table_hdf5",
                                                        "cli_subset_hdf5", "cli_subset_json"}) => Failed(ev)]
     ELSE IF IsEmptyTable(want) THEN [C14_out_of_domain_empty_result |-> TRUE]
     ELSE IF Failed(ev) THEN [C14_subset_read_succeeds |-> FALSE]
     ELSE LET got == ev.post[ev.res] IN
      [C14_equals_load_all_then_filter |->
          /\ got.obs = want.obs /\ got.samp = want.samp /\ got.mat = want.mat
          /\ MdEq(got, want, "observation") /\ MdEq(got, want, "sample"),
       C14_same_for_every_json_serialisation |-> ev.obs.styles_agree]
=============================================================================
