---------------------------- MODULE BiomProps4 ----------------------------
(***************************************************************************)
(* Property clauses, part 4: summaries and exports (C19), construction     *)
(* from every accepted input form and the two importers (C17).             *)
(***************************************************************************)
EXTENDS BiomFiles

\* ------------------------------------------------------------------ C19 summaries
RECURSIVE FlatRows(_)
FlatRows(m) == IF m = <<>> THEN <<>> ELSE Head(m) \o FlatRows(Tail(m))
Flat(t) == FlatRows(t.mat)
AbsV(v) == <<Abs(v[1]), v[2]>>
\* a figure printed with three decimals equals the true value at that precision
Near3(rep, v) == Known(rep) /\ Known(v) /\ Leq(AbsV(Sub(rep, v)), <<1, 1999>>)
SortedVals(s) == SortSeq(s, LAMBDA x, y : Less(x, y))
MedianOf(s) == LET t == SortedVals(s)
                   n == Len(t)
               IN IF n % 2 = 1 THEN t[(n + 1) \div 2] ELSE DivNat(Add(t[n \div 2], t[n \div 2 + 1]), 2)
MeanOf(s) == DivNat(SumSeq(s), Len(s))
HasNZ(v) == \E k \in 1..Len(v) : ~IsZero(v[k])
RECURSIVE FoldVals(_, _, _)
FoldVals(f, acc, s) == IF s = <<>> THEN acc
                       ELSE FoldVals(f, IF f = "add" THEN Add(acc, Head(s))
                                        ELSE (IF Less(acc, Head(s)) THEN Head(s) ELSE acc), Tail(s))
ReduceVec(f, v) == FoldVals(f, Head(v), Tail(v))
PerSample(t, binary) == [j \in 1..Len(t.samp) |-> IF binary THEN R(NnzVec(Col(t, j))) ELSE VecSum(Col(t, j))]
ScalarKeys(t, ax) == IF Md(t, ax).has /\ Len(Md(t, ax).rows) > 0
                     THEN {e[1] : e \in {x \in SeqSet(Md(t, ax).rows[1]) : x[2] \in {"s", "i", "f", "b"}}} ELSE {}
AllKeys(t, ax) == IF Md(t, ax).has /\ Len(Md(t, ax).rows) > 0 THEN RowKeys(SeqSet(Md(t, ax).rows[1])) ELSE {}

SummaryOk(t, a, v) ==
  CASE a.kind = "sum" -> v = (IF a.axis = "whole" THEN <<Total(t)>> ELSE SumAxis(t, a.axis))
    [] a.kind \in {"min", "max"} ->
         IF a.axis = "whole"
         THEN LET allnz == NZVals(Flat(t)) IN v = <<IF a.kind = "min" THEN MinSeq(allnz) ELSE MaxSeq(allnz)>>
         ELSE v = [k \in 1..Len(Ids(t, a.axis)) |->
                     IF a.kind = "min" THEN MinSeq(NZVals(Vec(t, a.axis, k))) ELSE MaxSeq(NZVals(Vec(t, a.axis, k)))]
    [] a.kind = "nonzero_counts" ->
         IF a.axis = "whole"
         THEN v = <<IF a.binary THEN R(Nnz(t)) ELSE Total(t)>>
         ELSE v = [k \in 1..Len(Ids(t, a.axis)) |->
                     IF a.binary THEN R(NnzVec(Vec(t, a.axis, k))) ELSE VecSum(Vec(t, a.axis, k))]
    [] a.kind = "density" -> v = DensityOf(t)
    [] a.kind = "reduce" -> v = [k \in 1..Len(Ids(t, a.axis)) |-> ReduceVec(a.f, Vec(t, a.axis, k))]
    [] a.kind = "stats" ->
         LET ps == PerSample(t, a.binary) IN
         /\ v.min = MinSeq(ps) /\ v.max = MaxSeq(ps)
         /\ VEq(v.median, MedianOf(ps)) /\ VEq(v.mean, MeanOf(ps))
         /\ v.counts = [j \in 1..Len(t.samp) |-> <<t.samp[j], ps[j]>>]
    [] a.kind = "cli_summarize" ->
         LET u  == IF a.observations THEN Transpose(t) ELSE t        \* the report "per sample" of u
             ps == PerSample(u, a.qualitative)
         IN /\ v.num_samples = Len(t.samp) /\ v.num_observations = Len(t.obs)
            /\ a.qualitative \/ (Near3(v.total, Total(t)) /\ Near3(v.density, DensityOf(t)))
            /\ Near3(v.min, MinSeq(ps)) /\ Near3(v.max, MaxSeq(ps))
            /\ Near3(v.median, MedianOf(ps)) /\ Near3(v.mean, MeanOf(ps))
            /\ Len(v.detail) = Len(u.samp)
            /\ {v.detail[k][1] : k \in 1..Len(v.detail)} = SeqSet(u.samp)
            /\ \A k \in 1..Len(v.detail) :
                  Has(u, "sample", v.detail[k][1]) => Near3(v.detail[k][2], ps[Idx(u.samp, v.detail[k][1])])
            /\ \A k \in 1..(Len(v.detail) - 1) : Leq(v.detail[k][2], v.detail[k + 1][2])
            /\ SeqSet(v.smd_keys) = AllKeys(t, "sample") /\ SeqSet(v.omd_keys) = AllKeys(t, "observation")
    [] a.kind = "cli_table_ids" -> v = Ids(t, a.axis)
    [] a.kind = "cli_head" ->
         LET w == HeadT(t, a.n, a.m) IN v.obs = w.obs /\ v.samp = w.samp /\ v.mat = w.mat
    [] a.kind = "to_dataframe" -> v.index = t.obs /\ v.columns = t.samp /\ v.mat = t.mat
    [] a.kind \in {"md_dataframe", "cli_export_metadata"} ->
         /\ v.index = Ids(t, a.axis)
         /\ ScalarKeys(t, a.axis) \subseteq SeqSet(v.columns)
         /\ \A k \in 1..Len(Ids(t, a.axis)) : \A e \in RowAt(t, a.axis, k) :
               e[2] \in {"s", "i", "f", "b"} =>
                  \E c \in 1..Len(v.columns) : v.columns[c] = e[1] /\ v.rows[k][c] = <<e[2], e[3]>>
    [] OTHER -> FALSE

\* domain of each summary (the property: min/max only for vectors with a non-zero entry, ...)
SummaryDefined(t, a) ==
  /\ ~IsEmptyTable(t)
  /\ (a.kind \in {"min", "max"}) =>
        (IF a.axis = "whole" THEN \A j \in 1..Len(t.samp) : HasNZ(Col(t, j))
         ELSE \A k \in 1..Len(Ids(t, a.axis)) : HasNZ(Vec(t, a.axis, k)))
  /\ (a.kind \in {"md_dataframe", "cli_export_metadata"}) => (Md(t, a.axis).has /\ RowsHomogeneous(Md(t, a.axis)))
  /\ (a.kind \in {"cli_summarize", "cli_table_ids", "cli_head", "cli_export_metadata"}) => InDomainC01(t)
  /\ (a.kind = "cli_summarize") => \A c \in Cells(t) : IsNat(t.mat[c[1]][c[2]])     \* "Total count" is printed with %d
  /\ (a.kind = "cli_head") => (a.n > 0 /\ a.m > 0)

Clauses_summary(ev) ==
  LET t == ev.pre[ev.recv] IN
  IF ~SummaryDefined(t, ev.args) THEN [C19_out_of_domain |-> TRUE]
  ELSE IF ev.args.kind = "to_dataframe" /\ Ok(ev) /\ Len(ev.obs.value.mat) = Len(t.obs)
            /\ \A i \in 1..Len(t.obs) : Len(ev.obs.value.mat[i]) = Len(t.samp)
  THEN \* two clauses, so that a deviation confined to the zero cells does not hide anything else
       [C19_dataframe_labels_and_nonzero_cells |->
           /\ ev.obs.value.index = t.obs /\ ev.obs.value.columns = t.samp
           /\ \A c \in Cells(t) : ~IsZero(t.mat[c[1]][c[2]]) => ev.obs.value.mat[c[1]][c[2]] = t.mat[c[1]][c[2]],
        C19_dataframe_zero_cells_are_zero |->
           \A c \in Cells(t) : IsZero(t.mat[c[1]][c[2]]) => IsZero(ev.obs.value.mat[c[1]][c[2]]),
        C16_reads_leave_content_unchanged |-> HeapUnchanged(ev),
        C07_inputs_unchanged |-> HeapUnchanged(ev)]
  ELSE [C19_summary_equals_value_computed_from_matrix |-> Ok(ev) /\ SummaryOk(t, ev.args, ev.obs.value),
        C16_reads_leave_content_unchanged |-> HeapUnchanged(ev),
        C07_inputs_unchanged |-> HeapUnchanged(ev)]

\* ------------------------------------------------------------------ C17 construction
IntVals(t) == \A c \in Cells(t) : Known(t.mat[c[1]][c[2]]) /\ t.mat[c[1]][c[2]][2] = 1
BoolVals(t) == \A c \in Cells(t) : t.mat[c[1]][c[2]] \in {Zero, One}
LastRowColNZ(t) == Len(t.obs) > 0 /\ Len(t.samp) > 0 /\ HasNZ(t.mat[Len(t.obs)]) /\ HasNZ(Col(t, Len(t.samp)))
\* a form that cannot express matrix M (e.g. a trailing all-zero row without a shape) is not
\* "a representation of the same matrix"
Expressible(form, t) ==
  CASE form \in {"int_ndarray", "int_lists"} -> IntVals(t)
    [] form = "bool_ndarray" -> BoolVals(t)
    [] form = "list_of_row_dicts" -> LastRowColNZ(t) /\ Len(t.obs) <= Len(t.samp)
    [] OTHER -> TRUE

Clauses_construct(ev) ==
  LET src == ev.pre[ev.recv] IN
  IF IsEmptyTable(src) \/ ~Expressible(ev.args.form, src) \/ ev.obs.skipped THEN [C17_out_of_domain |-> TRUE]
  ELSE IF Failed(ev) THEN [C17_accepted_form_constructs |-> FALSE]
  ELSE LET got == ev.post[ev.res] IN
   [C17_holds_exactly_the_described_values |-> got.mat = src.mat /\ got.obs = src.obs /\ got.samp = src.samp,
    C17_metadata_as_given |-> MdEq(got, src, "observation") /\ MdEq(got, src, "sample"),
    C17_equal_to_table_from_dense_array |-> ev.obs.eq_ref /\ ev.obs.eq_ref_rev,
    C05_coherent_result |-> C05_Coherent(got),
    C07_inputs_unchanged |-> FrameRule(ev, {ev.res})]

\* malformed input describing a non-empty table: args.kind names the defect
Clauses_construct_bad(ev) ==
  LET src == ev.pre[ev.recv] IN
  IF IsEmptyTable(src) \/ ev.obs.skipped THEN [C17_out_of_domain |-> TRUE]   \* table too small for this defect
  ELSE [C17_malformed_input_rejected_with_table_error |-> TableErr(ev),
        C17_malformed_input_produces_no_table |-> ev.res \notin DOMAIN ev.post \/ ev.res \in DOMAIN ev.pre,
        C07_inputs_unchanged |-> HeapUnchanged(ev)]

\* importers: args.records = sequence of <<obs, samp, value>> (adjacency) resp. <<type, obs, samp>> (uc)
RecSum(recs, o, s) == SumSeq([k \in 1..Len(recs) |-> IF recs[k][1] = o /\ recs[k][2] = s THEN recs[k][3] ELSE Zero])
Clauses_from_adjacency(ev) ==
  LET recs == ev.args.records
      O == {recs[k][1] : k \in 1..Len(recs)}
      S == {recs[k][2] : k \in 1..Len(recs)}
  IN IF recs = <<>> THEN [C17_out_of_domain |-> TRUE]
     ELSE IF Failed(ev) THEN [C17_importer_succeeds |-> FALSE]
     ELSE LET got == ev.post[ev.res] IN
      [C17_importer_ids_are_the_named_ids |-> SeqSet(got.obs) = O /\ SeqSet(got.samp) = S
                                               /\ IsInj(got.obs) /\ IsInj(got.samp),
       C17_cells_are_sums_of_records |->
          \A i \in 1..Len(got.obs), j \in 1..Len(got.samp) : VEq(got.mat[i][j], RecSum(recs, got.obs[i], got.samp[j]))]

UcCount(recs, o, s) == Cardinality({k \in 1..Len(recs) : recs[k][1] \in {"H", "S"} /\ recs[k][2] = o /\ recs[k][3] = s})
\* args.via: "api" = parse_uc on lines; "cli" = `biom from-uc`; "cli_repset" = `biom from-uc --rep-set-fp` with a
\* FASTA file that relabels every seed <o> as <o>~R (the table must hold the new labels, counts unchanged)
UcRen(ev, o) == IF ev.args.via = "cli_repset" THEN o \o "~R" ELSE o
Clauses_parse_uc(ev) ==
  LET recs == ev.args.records
      counted == {k \in 1..Len(recs) : recs[k][1] \in {"H", "S"}}
      O == {recs[k][2] : k \in {x \in 1..Len(recs) : recs[x][1] \in {"H", "S", "L"}}}
      S == {recs[k][3] : k \in counted}
  IN IF counted = {} THEN [C17_out_of_domain |-> TRUE]
     ELSE IF Failed(ev) THEN [C17_importer_succeeds |-> FALSE]
     ELSE LET got == ev.post[ev.res] IN
      [C17_importer_ids_are_the_named_ids |-> SeqSet(got.obs) = {UcRen(ev, o) : o \in O} /\ SeqSet(got.samp) = S
                                               /\ IsInj(got.obs) /\ IsInj(got.samp),
       C17_cells_are_counts_of_records |->
          \A o \in O, s_ \in S :
             \A i \in 1..Len(got.obs), j \in 1..Len(got.samp) :
                (got.obs[i] = UcRen(ev, o) /\ got.samp[j] = s_) => got.mat[i][j] = R(UcCount(recs, o, s_))]

\* ------------------------------------------------------------------ C15 validator
\* The driver wrote the table as JSON or HDF5 with the library, applied args.muts (0..2 structural
\* mutations from the grammar below) to the real file, and classified the mutated file with an
\* independent reader into obs.facts.  obs.valid = what `validate-table` reported (a crash or a
\* non-zero exit counts as "not reported valid").
JsonMutations ==
  {"del:id", "del:format", "del:format_url", "del:type", "del:generated_by", "del:date", "del:rows", "del:columns",
   "del:matrix_type", "del:matrix_element_type", "del:shape", "del:data",
   "rename:rows", "rename:columns", "rename:shape", "rename:data", "rename:type", "rename:matrix_element_type",
   "shape:rows+1", "shape:rows-1", "shape:cols+1", "shape:cols-1",
   "coord:row_out", "coord:col_out", "coord:negative", "coord:index_text", "coord:value_text", "coord:malformed",
   "coord:col_index_float", "coord:row_index_float", "coord:col_index_text",
   "coord:row_index_bool", "coord:col_index_bool", "coord:value_bool",
   "ids:dup_row", "ids:dup_col", "ids:blank_row", "ids:blank_col", "ids:del_row_id", "ids:del_col_md",
   "md:row_text", "md:col_list", "md:row_number",
   "type:matrix_dense", "type:element_int", "type:element_unicode", "type:element_bogus",
   "hdr:bad_date", "hdr:bad_format", "hdr:bad_url", "hdr:bad_type"}
Hdf5Mutations ==
  {"delattr:id", "delattr:type", "delattr:format-url", "delattr:format-version", "delattr:generated-by",
   "delattr:creation-date", "delattr:shape", "delattr:nnz",
   "delgrp:observation/matrix", "delgrp:sample/matrix", "delgrp:observation/metadata", "delgrp:sample/group-metadata",
   "delds:observation/ids", "delds:sample/ids", "delds:observation/matrix/data", "delds:observation/matrix/indices",
   "delds:observation/matrix/indptr", "delds:sample/matrix/data", "delds:sample/matrix/indices", "delds:sample/matrix/indptr",
   "rename:sample/ids", "rename:observation/matrix/data",
   "shape:rows+1", "shape:rows-1", "shape:cols+1", "shape:cols-1",
   "coord:obs_index_out", "coord:samp_index_out", "coord:obs_index_negative",
   "ids:dup_obs", "ids:dup_samp", "ids:blank_obs", "ids:blank_samp",
   "type:data_int", "type:indices_float", "type:nnz_text",
   "md:wrong_length", "hdr:bad_date", "hdr:bad_url", "hdr:bad_version", "hdr:bad_type"}

WellFormedFacts(f) ==
  /\ f.parse_ok /\ f.required_present /\ f.shape_matches_ids /\ f.coords_in_shape
  /\ f.element_types_ok /\ f.ids_nonempty_unique /\ f.metadata_object_or_null

VocabularyTypes == {"OTU table", "Pathway table", "Function table", "Ortholog table", "Gene table",
                    "Metabolite table", "Taxon table"}

Clauses_validate(ev) ==
  LET src == ev.pre[ev.recv]
      a == ev.args
      f == ev.obs.facts
      indomain == InDomainC01(src) /\ src.type \in VocabularyTypes /\ ev.obs.wrote = "ok"
  IN IF ~indomain THEN [C15_out_of_domain |-> TRUE]
     ELSE
     [C15_library_written_file_is_valid |-> (a.muts = <<>>) => (ev.obs.valid /\ WellFormedFacts(f)),
      C15_never_valid_when_required_item_missing |-> (f.parse_ok /\ ~f.required_present) => ~ev.obs.valid,
      C15_never_valid_when_shape_disagrees_with_ids |->
         (f.parse_ok /\ f.required_present /\ ~f.shape_matches_ids) => ~ev.obs.valid,
      C15_never_valid_when_coordinate_outside_shape |->
         (f.parse_ok /\ f.required_present /\ ~f.coords_in_shape) => ~ev.obs.valid,
      C15_never_valid_when_element_has_wrong_type |->
         (f.parse_ok /\ f.required_present /\ ~f.element_types_ok) => ~ev.obs.valid,
      C15_never_valid_when_id_empty_or_duplicated |->
         (f.parse_ok /\ f.required_present /\ ~f.ids_nonempty_unique) => ~ev.obs.valid,
      C15_never_valid_when_metadata_not_object_or_null |->
         (f.parse_ok /\ f.required_present /\ ~f.metadata_object_or_null) => ~ev.obs.valid,
      C15_never_valid_when_unparsable |-> ~f.parse_ok => ~ev.obs.valid,
      C15_valid_numeric_json_loads_as_declared |->
         (a.fmt = "json" /\ ev.obs.valid /\ f.numeric) =>
            /\ ev.obs.loaded = "ok"
            /\ ev.obs.got.obs = ev.obs.declared.obs /\ ev.obs.got.samp = ev.obs.declared.samp
            /\ ev.obs.got.mat = ev.obs.declared.mat]
=============================================================================
