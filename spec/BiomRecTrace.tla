--------------------------- MODULE BiomRecTrace ---------------------------
(***************************************************************************)
(* Judge for events recorded from executions the driver did not start (the *)
(* repository's own test-suite run with the guarded recorder hook).  Each   *)
(* line of the trace file is one event with the projected state of the      *)
(* receiver, of the table arguments and of the result before/after the      *)
(* call.  Only clauses that need nothing but those states are evaluated     *)
(* (no twin runs, no logged callbacks); an event whose start tables are not *)
(* in the properties' domain (not coherent: tests build such tables on      *)
(* purpose) is skipped.                                                     *)
(***************************************************************************)
EXTENDS BiomDispatch, Json, IOUtils, TLCExt

Events == ndJsonDeserialize(IOEnv.TRACE_FILE)

RecInplace(ev) ==
  [C07_inputs_unchanged |-> IF ev.args.inplace THEN FrameRule(ev, {ev.recv}) ELSE FrameRule(ev, {ev.res}),
   C07_inplace_returns_receiver |-> (Ok(ev) /\ ev.args.inplace) => ev.obs.ret_is_recv,
   C07_new_object_when_not_inplace |-> (Ok(ev) /\ ~ev.args.inplace) => ~ev.obs.ret_is_recv]

Raw(ev) == "raw" \in DOMAIN ev.args
MergeModesKnown(ev) == ev.args.sample \in {"union", "intersection"} /\ ev.args.observation \in {"union", "intersection"}
NeedsResult(ev) ==
  Ok(ev) /\ ~Raw(ev) /\ (ev.call \in {"head", "sort_order", "transpose", "copy", "merge", "concat", "align_df"}
                         \/ (ev.call \in {"filter", "remove_empty", "update_ids"} /\ ~ev.args.inplace))

RecClauses(ev) ==
  CASE ev.call = "filter" /\ ~Raw(ev) -> Clauses_filter_ids(ev) @@ RecInplace(ev)
    [] ev.call \in {"filter", "transform", "norm", "pa"} /\ Raw(ev) -> RecInplace(ev)
    [] ev.call = "remove_empty" -> Clauses_remove_empty(ev) @@ RecInplace(ev)
    [] ev.call = "update_ids"   -> Clauses_update_ids(ev) @@ RecInplace(ev)
    [] ev.call = "head"         -> Clauses_head(ev) @@ NewTableClauses(ev)
    [] ev.call = "sort_order"   -> Clauses_sort_order(ev) @@ NewTableClauses(ev)
    [] ev.call = "align_df"     -> Clauses_align_df(ev) @@ NewTableClauses(ev)
    [] ev.call = "transpose"    -> Clauses_transpose(ev) @@ NewTableClauses(ev)
    [] ev.call = "copy"         -> [C06_copy_equal_content |-> Failed(ev) \/ SameTable(ev.post[ev.res], ev.pre[ev.recv])]
                                   @@ NewTableClauses(ev)
    [] ev.call = "add_metadata" -> Clauses_add_metadata(ev)
    [] ev.call = "del_metadata" -> Clauses_del_metadata(ev)
    \* merge / concat of two or three tables: the clauses that need only the states (no second run along the other
    \* path, no logged metadata callbacks: a metadata function other than the default makes those clauses vacuous)
    [] ev.call = "merge" /\ ~Raw(ev) /\ MergeModesKnown(ev) ->
         Clauses_merge([ev EXCEPT !.obs = ev.obs @@ [alt_ran |-> FALSE, alt_out |-> "ok", alt |-> ev.pre[ev.recv],
                                                    mdcalls |-> <<>>]])
    [] ev.call = "concat" /\ ~Raw(ev) -> Clauses_concat(ev)
    [] OTHER -> \* (merge, concat of other shapes,) align_to, sort, subsample, collapse: documented to return a new table
                [C07_inputs_unchanged |-> FrameRule(ev, {ev.res}),
                 C07_result_is_a_new_table |-> (Ok(ev) /\ ev.obs.returned_table) => ~ev.obs.ret_is_recv]

InDomain(ev) ==
  /\ \A s \in DOMAIN ev.pre : Shaped(ev.pre[s]) /\ C05_Coherent(ev.pre[s]) /\ ~IsEmptyTable(ev.pre[s])
  \* tests also pass unknown axis names on purpose
  /\ ("axis" \in DOMAIN ev.args) => ev.args.axis \in {"sample", "observation", "whole"}

RecDispatch(ev) ==
  IF ~InDomain(ev) THEN [REC_skipped_start_tables_outside_domain |-> TRUE]
  ELSE IF ~(\A s \in DOMAIN ev.post : Shaped(ev.post[s])) THEN [C05_coherent_after_every_call |-> FALSE]
  ELSE IF NeedsResult(ev) /\ ev.res \notin DOMAIN ev.post THEN [REC_skipped_result_not_recorded |-> TRUE]
  ELSE RecClauses(ev) @@ [C05_coherent_after_every_call |-> AllCoherent(ev.post)]

VARIABLES k, done
Init == k \in 1..Len(Events) /\ done = FALSE
Next == ~done /\ done' = TRUE /\ UNCHANGED k
Spec == Init /\ [][Next]_<<k, done>>

Report ==
  done =>
    LET ev == Events[k]
        c == RecDispatch(ev)
    IN /\ \A x \in {y \in DOMAIN c : ~c[y]} :
             PrintT(ToJson([k |-> "FAIL", id |-> ev.seq, l |-> 1, clause |-> x, call |-> ev.call]))
       /\ PrintT(ToJson([k |-> "DONE", id |-> ev.seq, n |-> 1, cnt |-> Cardinality(DOMAIN c), seen |-> DOMAIN c]))
=============================================================================
