---------------------------- MODULE BiomValue ----------------------------
(***************************************************************************)
(* Matrix values as exact rationals <<n, d>> with d > 0, kept in lowest    *)
(* terms.  <<k, 0>> is "unrecognised datum number k" (something observed   *)
(* in the implementation that is not the image of any abstract value:      *)
(* a rounded float, NaN, ...).  It is equal only to itself and takes part  *)
(* in no arithmetic, so any clause that needs the value fails on it.       *)
(* TLC integers are 32 bit: numerators/denominators stay small by          *)
(* construction (the harness refuses to encode anything above 2^15).       *)
(***************************************************************************)
EXTENDS Integers, Sequences, FiniteSets

Abs(x) == IF x < 0 THEN -x ELSE x

RECURSIVE GCD(_, _)
GCD(a, b) == IF b = 0 THEN a ELSE GCD(b, a % b)

Known(v) == v[2] # 0
Unknown  == <<0, 0>>
Zero     == <<0, 1>>
One      == <<1, 1>>
R(n)     == <<n, 1>>                     \* integer n as a value

Norm(v) ==
  IF v[2] = 0 THEN v
  ELSE IF v[1] = 0 THEN Zero
  ELSE LET s == IF v[2] < 0 THEN -1 ELSE 1
           n == s * v[1]
           d == s * v[2]
           g == GCD(Abs(n), d)
       IN <<n \div g, d \div g>>

IsZero(v)  == Known(v) /\ v[1] = 0
NonZero(v) == ~IsZero(v)                 \* an unknown datum counts as stored/non-zero
VEq(a, b)  == Known(a) /\ Known(b) /\ a[1] * b[2] = b[1] * a[2]
Less(a, b) == a[1] * b[2] < b[1] * a[2]  \* only for known values
Leq(a, b)  == a[1] * b[2] <= b[1] * a[2]
IsNat(v)   == Known(v) /\ v[2] = 1 /\ v[1] >= 0
IsPos(v)   == Known(v) /\ v[1] > 0

Add(a, b) == IF ~Known(a) \/ ~Known(b) THEN Unknown
             ELSE Norm(<<a[1] * b[2] + b[1] * a[2], a[2] * b[2]>>)
Neg(a)    == IF ~Known(a) THEN Unknown ELSE <<-a[1], a[2]>>
Sub(a, b) == Add(a, Neg(b))
Mul(a, b) == IF ~Known(a) \/ ~Known(b) THEN Unknown
             ELSE Norm(<<a[1] * b[1], a[2] * b[2]>>)
DivNat(a, k) == IF ~Known(a) \/ k = 0 THEN Unknown ELSE Norm(<<a[1], a[2] * k>>)
Div(a, b) == IF ~Known(a) \/ ~Known(b) \/ b[1] = 0 THEN Unknown
             ELSE Norm(<<a[1] * b[2], a[2] * b[1]>>)

RECURSIVE SumSeq(_)
SumSeq(s) == IF s = <<>> THEN Zero ELSE Add(Head(s), SumSeq(Tail(s)))

\* sum of the values f[x] for x in the finite set S (f a TLA+ function to values)
RECURSIVE SumOverSet(_, _)
SumOverSet(S, f) ==
  IF S = {} THEN Zero
  ELSE LET x == CHOOSE y \in S : TRUE IN Add(f[x], SumOverSet(S \ {x}, f))

AllKnown(s) == \A i \in 1..Len(s) : Known(s[i])

MinSeq(s) == CHOOSE v \in {s[i] : i \in 1..Len(s)} : \A j \in 1..Len(s) : Leq(v, s[j])
MaxSeq(s) == CHOOSE v \in {s[i] : i \in 1..Len(s)} : \A j \in 1..Len(s) : Leq(s[j], v)
=============================================================================
