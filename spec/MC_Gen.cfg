SPECIFICATION Spec
CONSTANTS
  InitHeaps <- MCHeaps
  Phases <- MCPhases
  NatRank <- MCNatRank
CONSTRAINT Emit
INVARIANT ModelCoherent
CHECK_DEADLOCK FALSE
