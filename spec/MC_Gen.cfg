SPECIFICATION Spec
CONSTANTS
  InitHeaps <- MCInitHeaps
  Phases <- MCPhases
  NatRank <- MCNatRank
CONSTRAINT Emit
INVARIANT ModelCoherent
CHECK_DEADLOCK FALSE
