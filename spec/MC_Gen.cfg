SPECIFICATION Spec
CONSTANTS
  InitHeaps <- MCHeaps
  Phases <- MCPhases
  NatRank <- MCNatRank
CONSTRAINT Emit
INVARIANT ModelCoherent
INVARIANT ModelEqIsEquivalence
INVARIANT ModelTypeOK
PROPERTY ModelFrame
PROPERTY ModelReadsChangeNothing
PROPERTY ModelSlotsOnlyGrow
CHECK_DEADLOCK FALSE
