SPECIFICATION LSpec
CONSTANTS
  MaxN = 2
  MaxM = 3
  Vals <- LemmaVals
  InitHeaps <- LemmaHeaps
  Phases <- LemmaPhases
  NatRank <- LemmaRank
INVARIANT TransposeInvolution
INVARIANT ProofCopiesAgree
INVARIANT SortInverse
INVARIANT FilterAllIsIdentity
INVARIANT FilterInvertIsComplement
INVARIANT FilterPreservesValues
INVARIANT RemoveEmptyRemovesExactlyZeros
INVARIANT TransposeCommutesWithFilter
INVARIANT MergeWithSelfDoubles
INVARIANT PartitionCovers
INVARIANT CollapseConserves
INVARIANT EncodeDecode
INVARIANT PAIdempotent
INVARIANT NormSumsToOne
CHECK_DEADLOCK FALSE
