------------------------------ MODULE BiomErrCore ------------------------------
(***************************************************************************)
(* The error-handling profile of biom.err as a state machine (C20).        *)
(*                                                                         *)
(*   profile  : Kind -> Reaction            what geterr() reports          *)
(*   frames   : Seq(Kind -> Reaction)       profiles saved by the errstate *)
(*                                          blocks that are currently open *)
(*   cbs      : Kind -> callback token      "none" = no callback set       *)
(*                                                                         *)
(* Reference semantics = a scoped configuration stack: entering a block    *)
(* pushes the current profile and applies the request, leaving it (either  *)
(* way) pops and restores; a request naming an unknown kind or reaction is *)
(* refused and changes nothing.  `frames` is never logged by the           *)
(* implementation: the trace specification (BiomErrTrace) reconstructs it. *)
(***************************************************************************)
EXTENDS Integers, Sequences, FiniteSets, TLC, SequencesExt

Kinds     == {"empty", "obssize", "sampsize", "obsdup", "sampdup", "obsmdsize", "sampmdsize"}
Reactions == {"raise", "ignore", "call", "print", "warn"}
Default   == [k \in Kinds |-> IF k = "empty" THEN "ignore" ELSE "raise"]
NoCbs     == [k \in Kinds |-> "none"]

\* a request is a sequence of <<key, reaction>> pairs (keyword arguments of seterr / errstate)
ReqKeys(req) == {req[i][1] : i \in 1..Len(req)}
HasAll(req)  == "all" \in ReqKeys(req)
ReqVal(req, k) == req[CHOOSE i \in 1..Len(req) : req[i][1] = k][2]
ValidReq(req) ==
  IF HasAll(req) THEN ReqVal(req, "all") \in Reactions      \* with 'all' only that entry is looked at
  ELSE \A i \in 1..Len(req) : req[i][1] \in Kinds /\ req[i][2] \in Reactions
Apply(p, req) ==
  IF HasAll(req) THEN [k \in Kinds |-> ReqVal(req, "all")]
  ELSE [k \in Kinds |-> IF k \in ReqKeys(req) THEN ReqVal(req, k) ELSE p[k]]

\* what an operation that trips exactly kind k does under profile p with callbacks c
Expected(p, c, k) ==
  CASE p[k] = "raise"  -> "raised"
    [] p[k] = "ignore" -> "passed"
    [] p[k] = "warn"   -> "warned"
    [] p[k] = "print"  -> "printed"
    [] p[k] = "call"   -> IF c[k] = "none" THEN "passed" ELSE "called:" \o c[k]
    [] OTHER           -> "undefined"

(*************************** the reference machine ***************************)
\* Step(s, e): state after event e from state s = [profile, frames, cbs]; total (every event of
\* the alphabet is defined in every state; an exit without an open block is a no-op).
Step(s, e) ==
  CASE e.act = "seterr" ->
         IF ValidReq(e.req) THEN [s EXCEPT !.profile = Apply(s.profile, e.req)] ELSE s
    [] e.act = "enter" ->
         IF ValidReq(e.req)
         THEN [s EXCEPT !.frames = Append(s.frames, s.profile), !.profile = Apply(s.profile, e.req)]
         ELSE s
    [] e.act \in {"exit", "exit_exc"} ->
         IF s.frames = <<>> THEN s
         ELSE [s EXCEPT !.profile = s.frames[Len(s.frames)], !.frames = SubSeq(s.frames, 1, Len(s.frames) - 1)]
    [] e.act = "seterrcall" ->
         IF e.kind \in Kinds THEN [s EXCEPT !.cbs = [s.cbs EXCEPT ![e.kind] = e.cb]] ELSE s
    [] OTHER -> s                        \* trigger, noerror, geterr: pure observations

Outcome(s, e) ==
  CASE e.act \in {"seterr", "enter"} -> IF ValidReq(e.req) THEN "ok" ELSE "KeyError"
    [] e.act = "seterrcall" -> IF e.kind \in Kinds THEN "ok" ELSE "KeyError"
    [] e.act = "trigger" -> Expected(s.profile, s.cbs, e.kind)
    [] e.act = "noerror" -> "passed"
    [] OTHER -> "ok"
=============================================================================
