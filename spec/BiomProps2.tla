---------------------------- MODULE BiomProps2 ----------------------------
(***************************************************************************)
(* Property clauses, part 2: read accessors (C05/C16/C19), equality (C16), *)
(* metadata updates (C18), value transforms (C13).                         *)
(***************************************************************************)
EXTENDS BiomProps

\* ------------------------------------------------------- read accessors
\* A read is performed on the object under test (it may change the hidden layout).
\* args.kind says which accessor, obs.value what it returned (abstracted).
Cells(t) == (1..Len(t.obs)) \X (1..Len(t.samp))
NonzeroPairs(t) == {<<t.obs[c[1]], t.samp[c[2]]>> : c \in {x \in Cells(t) : ~IsZero(t.mat[x[1]][x[2]])}}
DensityOf(t) == IF IsEmptyTable(t) THEN Zero ELSE Norm(<<Nnz(t), Len(t.obs) * Len(t.samp)>>)

ReadValueOk(t, a, v) ==
  CASE a.kind = "nnz"      -> v = Nnz(t)
    [] a.kind = "density"  -> v = DensityOf(t)
    [] a.kind = "data"     -> Has(t, a.axis, a.id) /\ v = VecOf(t, a.axis, a.id)
    [] a.kind = "value"    -> Has(t, "observation", a.oid) /\ Has(t, "sample", a.sid) /\ v = Val(t, a.oid, a.sid)
    [] a.kind = "iter"     -> /\ Len(v) = Len(Ids(t, a.axis))
                              /\ \A k \in 1..Len(v) : /\ v[k].id = Ids(t, a.axis)[k]
                                                      /\ v[k].vec = Vec(t, a.axis, k)
                                                      /\ SeqSet(v[k].md) = RowAt(t, a.axis, k)
    [] a.kind = "iter_data" -> v = [k \in 1..Len(Ids(t, a.axis)) |-> Vec(t, a.axis, k)]
    [] a.kind = "pairwise" -> \* every unordered pair once (tri=True, diag=False), each side the true vector
                              /\ Len(v) = (Len(Ids(t, a.axis)) * (Len(Ids(t, a.axis)) - 1)) \div 2
                              /\ \A k \in 1..Len(v) :
                                   /\ Has(t, a.axis, v[k][1].id) /\ Has(t, a.axis, v[k][2].id)
                                   /\ Idx(Ids(t, a.axis), v[k][1].id) < Idx(Ids(t, a.axis), v[k][2].id)
                                   /\ v[k][1].vec = VecOf(t, a.axis, v[k][1].id)
                                   /\ v[k][2].vec = VecOf(t, a.axis, v[k][2].id)
                              /\ Cardinality({<<v[k][1].id, v[k][2].id>> : k \in 1..Len(v)}) = Len(v)
    [] a.kind = "nonzero"  -> SeqSet(v) = NonzeroPairs(t) /\ Len(v) = Cardinality(NonzeroPairs(t))
    [] a.kind = "sum"      -> IF a.axis = "whole" THEN v = <<Total(t)>> ELSE v = SumAxis(t, a.axis)
    [] a.kind = "nonzero_counts" ->
          IF a.axis = "whole" THEN v = <<R(Nnz(t))>>
          ELSE v = [k \in 1..Len(Ids(t, a.axis)) |-> R(NnzVec(Vec(t, a.axis, k)))]
    [] a.kind = "shape"    -> v = <<Len(t.obs), Len(t.samp)>>
    [] a.kind = "ids"      -> v = Ids(t, a.axis)
    [] a.kind = "exists"   -> v = Has(t, a.axis, a.id)
    [] a.kind = "eq_self"  -> v = TRUE
    [] OTHER -> TRUE           \* accessors without a value clause: only the stutter clauses apply

ValueKinds == {"nnz", "density", "data", "value", "iter", "iter_data", "pairwise", "nonzero", "sum",
               "nonzero_counts", "shape", "ids", "exists", "eq_self"}
\* the IDs a read names exist (otherwise the read must report them unknown)
ReadDefined(t, a) ==
  CASE a.kind = "data"  -> Has(t, a.axis, a.id)
    [] a.kind = "value" -> Has(t, "observation", a.oid) /\ Has(t, "sample", a.sid)
    [] OTHER -> TRUE

Clauses_read(ev) ==
  LET pre == ev.pre[ev.recv] IN
  [C05_accessors_report_the_matrix |->
      IF ~ReadDefined(pre, ev.args) THEN Failed(ev)            \* unknown IDs are reported as unknown
      ELSE IF ev.args.kind \in ValueKinds /\ ~IsEmptyTable(pre)
           THEN Ok(ev) /\ ReadValueOk(pre, ev.args, ev.obs.value)
           ELSE TRUE,
   C16_reads_leave_content_unchanged |-> HeapUnchanged(ev),
   C07_inputs_unchanged |-> HeapUnchanged(ev)]

\* the same matrix reconstructed through every accessor, each on its own fresh deep copy
Clauses_probe(ev) ==
  LET t == ev.pre[ev.recv] IN
  [C05_accessors_agree |-> IsEmptyTable(t) \/ \A k \in 1..Len(ev.obs.via) : ev.obs.via[k].mat = t.mat,
   C05_nnz_density_agree |-> ev.obs.nnz = Nnz(t) /\ ev.obs.density = DensityOf(t),
   C16_reads_leave_content_unchanged |-> HeapUnchanged(ev)]

\* ---------------------------------------------------------------- C16 equality
MdSame(a, b) == /\ a.has = b.has /\ Len(a.rows) = Len(b.rows)
                /\ \A k \in 1..Len(a.rows) : k <= Len(b.rows) => SeqSet(a.rows[k]) = SeqSet(b.rows[k])
EqContent(a, b) ==
  /\ a.type = b.type /\ a.obs = b.obs /\ a.samp = b.samp /\ a.mat = b.mat
  /\ MdSame(a.omd, b.omd) /\ MdSame(a.smd, b.smd)

Clauses_eq(ev) ==
  LET a == ev.pre[ev.recv]
      b == ev.pre[ev.args.other]
      indomain == ~IsEmptyTable(a) /\ ~IsEmptyTable(b)
  IN IF ~indomain THEN [C16_out_of_domain_empty_table |-> TRUE]
     ELSE
     [C16_equality_is_content_equality |-> Ok(ev) /\ ev.obs.eq = EqContent(a, b),
      C16_ne_is_negation |-> ev.obs.ne = ~ev.obs.eq,
      C16_symmetric |-> ev.obs.eq_rev = ev.obs.eq,
      C16_reflexive |-> ev.obs.eq_self,
      C16_descriptive_equality_agrees |-> ev.obs.desc_equal = ev.obs.eq,
      C16_repeatable |-> ev.obs.eq_again = ev.obs.eq,
      C16_reads_leave_content_unchanged |-> HeapUnchanged(ev)]

\* ---------------------------------------------------------------- C18 metadata
\* args.md : sequence of <<id, row>>; row = sequence of entries
MdMapIds(md) == {md[i][1] : i \in 1..Len(md)}
MdMapRow(md, id) == SeqSet(md[CHOOSE i \in 1..Len(md) : md[i][1] = id][2])

Clauses_add_metadata(ev) ==
  LET pre == ev.pre[ev.recv]
      ax  == ev.args.axis
      md  == ev.args.md
  IN IF Failed(ev) THEN [C18_add_metadata_succeeds |-> FALSE]
     ELSE LET post == ev.post[ev.recv] IN
      [C18_given_keys_set_on_named_ids |->
          \A k \in 1..Len(Ids(pre, ax)) :
             Ids(pre, ax)[k] \in MdMapIds(md) =>
                RowAt(post, ax, k) = RowUpdate(RowAt(pre, ax, k), MdMapRow(md, Ids(pre, ax)[k])),
       C18_other_ids_untouched |->
          \A k \in 1..Len(Ids(pre, ax)) :
             Ids(pre, ax)[k] \notin MdMapIds(md) => RowAt(post, ax, k) = RowAt(pre, ax, k),
       C18_other_axis_untouched |-> MdEq(post, pre, Other(ax)),
       C18_ids_and_values_untouched |-> post.obs = pre.obs /\ post.samp = pre.samp /\ post.mat = pre.mat,
       C07_inputs_unchanged |-> FrameRule(ev, {ev.recv})]

Clauses_del_metadata(ev) ==
  LET pre == ev.pre[ev.recv]
      axes == IF ev.args.axis = "whole" THEN Axes ELSE {ev.args.axis}
      keys == SeqSet(ev.args.keys)
  IN IF Failed(ev) THEN [C18_del_metadata_succeeds |-> FALSE]
     ELSE LET post == ev.post[ev.recv] IN
      [C18_exactly_named_keys_removed |->
          \A ax \in axes : \A k \in 1..Len(Ids(pre, ax)) :
             RowAt(post, ax, k) = (IF ev.args.allkeys THEN {} ELSE RowDelete(RowAt(pre, ax, k), keys)),
       C18_other_axis_untouched |-> \A ax \in Axes \ axes : MdEq(post, pre, ax),
       C18_ids_and_values_untouched |-> post.obs = pre.obs /\ post.samp = pre.samp /\ post.mat = pre.mat,
       C07_inputs_unchanged |-> FrameRule(ev, {ev.recv})]

\* ---------------------------------------------------------------- C13 transforms
Count(s, v) == Cardinality({i \in 1..Len(s) : s[i] = v})
SameBag(s, u) == Len(s) = Len(u) /\ \A i \in 1..Len(s) : Count(s, s[i]) = Count(u, s[i])
StructureKept(pre, post) ==
  /\ post.obs = pre.obs /\ post.samp = pre.samp
  /\ MdEq(post, pre, "observation") /\ MdEq(post, pre, "sample")
ZerosStayZero(pre, post) ==
  \A c \in Cells(pre) : IsZero(pre.mat[c[1]][c[2]]) => IsZero(post.mat[c[1]][c[2]])

\* transform with a user function: obs.calls[k] = [vals, id, md, ret]
Clauses_transform(ev) ==
  LET pre == ev.pre[ev.recv]
      ax  == ev.args.axis
      calls == ev.obs.calls
      n   == Len(Ids(pre, ax))
      cell(k, m) == IF ax = "observation" THEN <<k, m>> ELSE <<m, k>>
  IN IF IsEmptyTable(pre) THEN [C13_out_of_domain_empty_table |-> TRUE]
     ELSE IF Failed(ev) THEN [C13_transform_succeeds |-> FALSE]
     ELSE LET post == ev.post[ResultSlot(ev)] IN
      [C13_f_called_once_per_vector_in_order |-> [k \in 1..Len(calls) |-> calls[k].id] = Ids(pre, ax),
       C13_f_gets_exactly_the_nonzero_values |->
          \A k \in 1..Len(calls) : k <= n => SameBag(calls[k].vals, NZVals(Vec(pre, ax, k))),
       C13_f_gets_metadata |->
          \A k \in 1..Len(calls) : k <= n => SeqSet(calls[k].md) = RowAt(pre, ax, k),
       C13_returned_values_written_to_same_cells |->
          \* attributable when the value is unique within its vector
          Len(calls) = n =>
          \A k \in 1..n : \A m \in 1..Len(Vec(pre, ax, k)) :
             LET v == Vec(pre, ax, k)[m] IN
             (~IsZero(v) /\ Count(calls[k].vals, v) = 1 /\ Len(calls[k].ret) = Len(calls[k].vals)) =>
                post.mat[cell(k, m)[1]][cell(k, m)[2]]
                  = calls[k].ret[CHOOSE q \in 1..Len(calls[k].vals) : calls[k].vals[q] = v],
       C13_zero_cells_stay_zero |-> ZerosStayZero(pre, post),
       C13_ids_metadata_kept |-> StructureKept(pre, post)]

Clauses_norm(ev) ==
  LET pre == ev.pre[ev.recv]
      ax  == ev.args.axis
      nonneg == \A c \in Cells(pre) : Known(pre.mat[c[1]][c[2]]) /\ pre.mat[c[1]][c[2]][1] >= 0
  IN IF ~nonneg THEN [C13_norm_out_of_domain |-> TRUE]
     ELSE IF Failed(ev) THEN [C13_norm_succeeds |-> FALSE]
     ELSE LET post == ev.post[ResultSlot(ev)] IN
      [C13_norm_vectors_sum_to_one |->
          \A k \in 1..Len(Ids(pre, ax)) :
             IsPos(VecSum(Vec(pre, ax, k))) => VEq(VecSum(Vec(post, ax, k)), One),
       C13_norm_preserves_proportions |-> post.mat = NormT(pre, ax).mat,
       C13_zero_cells_stay_zero |-> ZerosStayZero(pre, post),
       C13_ids_metadata_kept |-> StructureKept(pre, post)]

Clauses_pa(ev) ==
  LET pre == ev.pre[ev.recv] IN
  IF Failed(ev) THEN [C13_pa_succeeds |-> FALSE]
  ELSE LET post == ev.post[ResultSlot(ev)] IN
      [C13_pa_one_exactly_where_nonzero |-> post.mat = PA(pre).mat,
       C13_ids_metadata_kept |-> StructureKept(pre, post)]

Clauses_rankdata(ev) ==
  LET pre == ev.pre[ev.recv]
      ax  == ev.args.axis
  IN IF Failed(ev) THEN [C13_rankdata_succeeds |-> FALSE]
     ELSE LET post == ev.post[ResultSlot(ev)] IN
      [C13_rank_of_nonzero_values_per_vector |->
          IF ev.args.method = "ordinal"
          THEN \A k \in 1..Len(Ids(pre, ax)) : ValidOrdinal(Vec(pre, ax, k), Vec(post, ax, k))
          ELSE post.mat = RankT(pre, ax, ev.args.method).mat,
       C13_zero_cells_stay_zero |-> ZerosStayZero(pre, post),
       C13_ids_metadata_kept |-> StructureKept(pre, post)]

\* an element-wise function gives the same table whichever axis it is applied along:
\* the driver applied the same function along the other axis to a deep copy (obs.other_axis)
ElementwiseClause(ev) ==
  [C13_elementwise_same_along_both_axes |->
      (Ok(ev) /\ ev.obs.elementwise) =>
         ev.obs.other_axis_out = "ok" /\ ev.obs.other_axis.mat = ev.post[ResultSlot(ev)].mat]
=============================================================================
