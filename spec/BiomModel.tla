---------------------------- MODULE BiomModel ----------------------------
(***************************************************************************)
(* Implementation-shaped, constructive model of the table machine: a heap  *)
(* of table slots and one action per public call (and per code path where  *)
(* the implementation has several).  Every action computes a complete      *)
(* event (outcome, post-heap, observations) -- the event a correct         *)
(* implementation would record -- so that                                  *)
(*   (1) TLC checks the model against the property clauses (BiomDispatch), *)
(*   (2) TLC-generated behaviours (variable hist) are replayed, call by    *)
(*       call, through the real biom.Table by harness/driver.py.           *)
(* The argument alphabet of every call is finite and derived from the      *)
(* current heap (all subsets / permutations of the current IDs, ...).      *)
(***************************************************************************)
EXTENDS BiomDispatch, SequencesExt, FiniteSetsExt, Json

CONSTANTS
  InitHeaps,   \* set of records [heap |-> slot -> table, tag |-> ...]
  Phases,      \* sequence of [calls |-> set of call names, full |-> BOOLEAN, res |-> "same" | "r",
               \*              pick |-> Nat]; pick = 0: every enabled step of the phase is taken,
               \*              pick = k > 0: k of them per state, chosen by a deterministic stride
               \*              whose offset is ph.salt (from VERIF_SEED) plus a number derived from
               \*              the state, so that a run is reproducible from its seed
  NatRank      \* function ID token -> Nat: the natural sort rank of the token

VARIABLES heap, hist, init
vars == <<heap, hist, init>>

Depth == Len(Phases)

(****************************** bookkeeping *******************************)
LkOf(t) == [shape |-> <<Len(t.obs), Len(t.samp)>>, obs |-> IdxSeq(Len(t.obs)),
            samp |-> IdxSeq(Len(t.samp)), exists_ok |-> TRUE, unknown_found |-> FALSE,
            omd_by_id |-> t.omd.rows, smd_by_id |-> t.smd.rows]
Fresh(t) == [obs |-> t.obs, samp |-> t.samp, mat |-> t.mat, omd |-> t.omd, smd |-> t.smd,
             type |-> t.type, tid |-> t.tid, lk |-> LkOf(t)]

Ev(st, pre, post, out, obs) ==
  [call |-> st.call, recv |-> st.recv, res |-> st.res, args |-> st.args,
   out |-> out, pre |-> pre, post |-> post, obs |-> obs]

Put(h, slot, t) == (slot :> t) @@ h

\* event of a call with an inplace flag whose correct result is r (or a refusal)
InplaceEv(st, h, okreq, r) ==
  IF ~okreq
  THEN Ev(st, h, h, "error", [ret_is_recv |-> FALSE, twin_ran |-> TRUE, twin_out |-> "error",
                              twin |-> h[st.recv]])
  ELSE Ev(st, h, Put(h, IF st.args.inplace THEN st.recv ELSE st.res, r), "ok",
          [ret_is_recv |-> st.args.inplace, twin_ran |-> TRUE, twin_out |-> "ok", twin |-> r])

NewEv(st, h, okreq, r, obs) ==
  IF ~okreq THEN Ev(st, h, h, "error", obs)
  ELSE Ev(st, h, Put(h, st.res, r), "ok", obs)

(******************************* predicates ********************************)
PredAccepts(a, vec, id, row) ==
  CASE a.pred = "by_id"         -> id \in SeqSet(a.ids)
    [] a.pred = "first_nonzero" -> Len(vec) > 0 /\ ~IsZero(vec[1])
    [] a.pred = "last_nonzero"  -> Len(vec) > 0 /\ ~IsZero(vec[Len(vec)])
    [] a.pred = "any_nonzero"   -> ~VecZero(vec)
    [] a.pred = "by_md"         -> <<a.mdkey, "s", <<a.mdval>>>> \in row
    [] a.pred = "all"           -> TRUE
    [] OTHER                    -> FALSE

PredCalls(t, a) ==
  LET ax == a.axis IN
  [k \in 1..Len(Ids(t, ax)) |->
     [vec |-> Vec(t, ax, k), id |-> Ids(t, ax)[k],
      md |-> IF Md(t, ax).has THEN Md(t, ax).rows[k] ELSE <<>>,
      ret |-> PredAccepts(a, Vec(t, ax, k), Ids(t, ax)[k], RowAt(t, ax, k))]]

(************************** reads and metadata ****************************)
ReadValue(t, a) ==
  CASE a.kind = "nnz"      -> Nnz(t)
    [] a.kind = "density"  -> DensityOf(t)
    [] a.kind = "data"     -> VecOf(t, a.axis, a.id)
    [] a.kind = "value"    -> Val(t, a.oid, a.sid)
    [] a.kind = "iter"     -> [k \in 1..Len(Ids(t, a.axis)) |->
                                 [id |-> Ids(t, a.axis)[k], vec |-> Vec(t, a.axis, k),
                                  md |-> IF Md(t, a.axis).has THEN Md(t, a.axis).rows[k] ELSE <<>>]]
    [] a.kind = "iter_data" -> [k \in 1..Len(Ids(t, a.axis)) |-> Vec(t, a.axis, k)]
    [] a.kind = "pairwise" ->
         LET n == Len(Ids(t, a.axis))
             prs == SelectSeq(SetToSeq((1..n) \X (1..n)), LAMBDA p : p[1] < p[2])
         IN [k \in 1..Len(prs) |->
               <<[id |-> Ids(t, a.axis)[prs[k][1]], vec |-> Vec(t, a.axis, prs[k][1])],
                 [id |-> Ids(t, a.axis)[prs[k][2]], vec |-> Vec(t, a.axis, prs[k][2])]>>]
    [] a.kind = "nonzero"  -> SetToSeq(NonzeroPairs(t))
    [] a.kind = "sum"      -> IF a.axis = "whole" THEN <<Total(t)>> ELSE SumAxis(t, a.axis)
    [] a.kind = "nonzero_counts" ->
          IF a.axis = "whole" THEN <<R(Nnz(t))>>
          ELSE [k \in 1..Len(Ids(t, a.axis)) |-> R(NnzVec(Vec(t, a.axis, k)))]
    [] a.kind = "shape"    -> <<Len(t.obs), Len(t.samp)>>
    [] a.kind = "ids"      -> Ids(t, a.axis)
    [] a.kind = "exists"   -> Has(t, a.axis, a.id)
    [] OTHER               -> TRUE

\* rows are sequences in the state; an updated row is rebuilt from the set of entries
RowSeq(r) == SetToSeq(r)
WithMd(t, ax, md) == IF ax = "observation" THEN [t EXCEPT !.omd = md] ELSE [t EXCEPT !.smd = md]
AddMd(t, md, ax) ==
  LET ids == Ids(t, ax)
      touched == \E k \in 1..Len(ids) : ids[k] \in MdMapIds(md)
  IN IF ~Md(t, ax).has /\ ~touched THEN t
     ELSE WithMd(t, ax, [has |-> TRUE,
            rows |-> [k \in 1..Len(ids) |->
                        IF ids[k] \in MdMapIds(md)
                        THEN RowSeq(RowUpdate(RowAt(t, ax, k), MdMapRow(md, ids[k])))
                        ELSE RowSeq(RowAt(t, ax, k))]])
DelMd1(t, a, ax) ==
  IF ~Md(t, ax).has THEN t
  ELSE IF a.allkeys THEN WithMd(t, ax, NoMd)
  ELSE LET rows == [k \in 1..Len(Ids(t, ax)) |-> RowSeq(RowDelete(RowAt(t, ax, k), SeqSet(a.keys)))]
       IN IF \A k \in 1..Len(rows) : rows[k] = <<>> THEN WithMd(t, ax, NoMd)
          ELSE WithMd(t, ax, [has |-> TRUE, rows |-> rows])
DelMd(t, a) == IF a.axis = "whole" THEN DelMd1(DelMd1(t, a, "sample"), a, "observation")
               ELSE DelMd1(t, a, a.axis)

(**************************** user functions ******************************)
ElementwiseFs == {"double", "square", "zero_ge2"}
MinOf(vals) == IF vals = <<>> THEN Zero ELSE MinSeq(vals)
ApplyF(a, vals, id, row) ==
  CASE a.f = "double"   -> [k \in 1..Len(vals) |-> Mul(vals[k], R(2))]
    [] a.f = "square"   -> [k \in 1..Len(vals) |-> Mul(vals[k], vals[k])]
    [] a.f = "zero_ge2" -> [k \in 1..Len(vals) |-> IF Leq(R(2), vals[k]) THEN Zero ELSE vals[k]]
    [] a.f = "sub_min"  -> [k \in 1..Len(vals) |-> Sub(vals[k], MinOf(vals))]
    [] a.f = "times_len" -> [k \in 1..Len(vals) |-> Mul(vals[k], R(Len(vals)))]
    [] a.f = "by_md"    -> [k \in 1..Len(vals) |->
                              IF <<a.mdkey, "s", <<a.mdval>>>> \in row THEN Mul(vals[k], R(3)) ELSE vals[k]]
    [] a.f = "by_id"    -> [k \in 1..Len(vals) |-> IF id \in SeqSet(a.ids) THEN Mul(vals[k], R(5)) ELSE vals[k]]
    [] OTHER            -> vals
TransformCalls(t, a) ==
  [k \in 1..Len(Ids(t, a.axis)) |->
     LET vals == NZVals(Vec(t, a.axis, k)) IN
     [vals |-> vals, id |-> Ids(t, a.axis)[k],
      md |-> IF Md(t, a.axis).has THEN Md(t, a.axis).rows[k] ELSE <<>>,
      ret |-> ApplyF(a, vals, Ids(t, a.axis)[k], RowAt(t, a.axis, k))]]
\* rank of the m-th entry of v among its non-zero entries = number of non-zero entries up to m
NZRank(v, m) == Cardinality({q \in 1..m : ~IsZero(v[q])})
TransformT(t, a) ==
  LET calls == TransformCalls(t, a) IN
  MapNZ(t, LAMBDA v, i, j :
             LET k == IF a.axis = "observation" THEN i ELSE j
                 m == IF a.axis = "observation" THEN j ELSE i
             IN calls[k].ret[NZRank(Vec(t, a.axis, k), m)])

(*********************** merge / concat / collapse *************************)
NatSortedSet(S) == SortSeq(SetToSeq(S), LAMBDA x, y : NatRank[x] < NatRank[y])
\* fast path of merge: sorted ID order, no metadata
MergeFast(tabs) ==
  LET oo == NatSortedSet(UnionIds(tabs, "observation"))
      so == NatSortedSet(UnionIds(tabs, "sample"))
  IN [obs |-> oo, samp |-> so,
      mat |-> [i \in 1..Len(oo) |-> [j \in 1..Len(so) |-> SumAt(tabs, oo[i], so[j])]],
      omd |-> NoMd, smd |-> NoMd, type |-> "", tid |-> ""]
AnyMd(tabs) == \E k \in 1..Len(tabs) : tabs[k].omd.has \/ tabs[k].smd.has
MergeMdP(a, b, ax, ids, policy) ==   \* policy "default" (prefer receiver) or "custom" (prefer other)
  IF policy = "custom" THEN MergeMd(b, a, ax, ids) ELSE MergeMd(a, b, ax, ids)
MergeModel(tabs, a) ==
  IF ((a.smf = "none" /\ a.omf = "none") \/ ~AnyMd(tabs)) /\ a.sample = "union" /\ a.observation = "union"
  THEN MergeFast(tabs)
  ELSE LET g == MergeGeneral(tabs[1], tabs[2], a.sample, a.observation) IN
       [g EXCEPT !.omd = IF a.omf = "none" THEN [has |-> TRUE, rows |-> [k \in 1..Len(g.obs) |-> <<>>]]
                         ELSE MergeMdP(tabs[1], tabs[2], "observation", g.obs, a.omf),
                 !.smd = IF a.smf = "none" THEN [has |-> TRUE, rows |-> [k \in 1..Len(g.samp) |-> <<>>]]
                         ELSE MergeMdP(tabs[1], tabs[2], "sample", g.samp, a.smf)]
MdCallsModel(tabs, g, a) ==
  LET one(ax, id) ==
        LET sm == IF Has(tabs[1], ax, id) /\ Md(tabs[1], ax).has THEN Md(tabs[1], ax).rows[Idx(Ids(tabs[1], ax), id)] ELSE <<>>
            om == IF Has(tabs[2], ax, id) /\ Md(tabs[2], ax).has THEN Md(tabs[2], ax).rows[Idx(Ids(tabs[2], ax), id)] ELSE <<>>
        IN [axis |-> ax, id |-> id, self_md |-> sm, other_md |-> om,
            ret |-> IF Has(tabs[2], ax, id) /\ Md(tabs[2], ax).has THEN om ELSE sm]
  IN (IF a.smf = "custom" THEN [k \in 1..Len(g.samp) |-> one("sample", g.samp[k])] ELSE <<>>)
     \o (IF a.omf = "custom" THEN [k \in 1..Len(g.obs) |-> one("observation", g.obs[k])] ELSE <<>>)

ConcatModel(tabs, ax) ==
  LET oth == Other(ax)
      oo  == NatSortedSet(UnionIds(tabs, oth))
      ids == ConcatIds(tabs, ax)
      cell(id, oid) == LET own == tabs[OwnerOf(tabs, ax, id)] IN
                       IF Has(own, oth, oid) THEN VecOn(own, ax, id, oid) ELSE Zero
      anymd == \E p \in 1..Len(tabs) : Md(tabs[p], ax).has
      axmd == IF anymd THEN [has |-> TRUE, rows |-> [k \in 1..Len(ids) |->
                               LET own == tabs[OwnerOf(tabs, ax, ids[k])] IN
                               IF Md(own, ax).has THEN Md(own, ax).rows[Idx(Ids(own, ax), ids[k])] ELSE <<>>]]
              ELSE NoMd
      \* other-axis metadata comes from the first operand (after padding): rows of its own IDs
      first == tabs[1]
      othmd == IF Md(first, oth).has
               THEN [has |-> TRUE, rows |-> [m \in 1..Len(oo) |->
                        IF Has(first, oth, oo[m]) THEN Md(first, oth).rows[Idx(Ids(first, oth), oo[m])]
                        ELSE LET ow == CHOOSE p \in 1..Len(tabs) : Has(tabs[p], oth, oo[m]) IN
                             IF Md(tabs[ow], oth).has THEN Md(tabs[ow], oth).rows[Idx(Ids(tabs[ow], oth), oo[m])] ELSE <<>>]]
               ELSE NoMd
  IN IF ax = "observation"
     THEN [obs |-> ids, samp |-> oo, mat |-> [k \in 1..Len(ids) |-> [m \in 1..Len(oo) |-> cell(ids[k], oo[m])]],
           omd |-> axmd, smd |-> othmd, type |-> tabs[1].type, tid |-> ""]
     ELSE [obs |-> oo, samp |-> ids, mat |-> [m \in 1..Len(oo) |-> [k \in 1..Len(ids) |-> cell(ids[k], oo[m])]],
           omd |-> othmd, smd |-> axmd, type |-> tabs[1].type, tid |-> ""]

\* labelling functions: [id, label, none]
LabelFor(a, t, ax, k) ==
  LET id == Ids(t, ax)[k]
      row == RowAt(t, ax, k)
      mdv == IF \E e \in row : e[1] = "k1" /\ e[2] = "s"
             THEN (CHOOSE e \in row : e[1] = "k1" /\ e[2] = "s")[3][1] ELSE "nomd"
  IN CASE a.f = "by_md"      -> [id |-> id, label |-> "g_" \o mdv, none |-> FALSE]
       [] a.f = "constant"   -> [id |-> id, label |-> "gc", none |-> FALSE]
       [] a.f = "injective"  -> [id |-> id, label |-> "g_" \o id, none |-> FALSE]
       [] a.f = "parity"     -> [id |-> id, label |-> IF NatRank[id] % 2 = 0 THEN "g0" ELSE "g1", none |-> FALSE]
       [] a.f = "first_none" -> [id |-> id, label |-> "g1", none |-> (k = 1)]
       [] a.f = "int_parity" -> [id |-> id, label |-> IF k % 2 = 1 THEN "i0" ELSE "i1", none |-> FALSE]   \* falsy label 0
       [] a.f = "empty_text" -> [id |-> id, label |-> IF k = 1 THEN "e" ELSE "g1", none |-> FALSE]        \* falsy label ''
       [] a.f = "dict_id2grp" -> [id |-> id, label |-> IF k % 2 = 0 THEN "g0" ELSE "g1", none |-> FALSE]
       [] a.f = "dict_grp2ids" -> [id |-> id, label |-> IF k = 1 THEN "g1" ELSE "g0", none |-> FALSE]
       [] OTHER -> [id |-> id, label |-> "gc", none |-> FALSE]
LabelsModel(a, t) == [k \in 1..Len(Ids(t, a.axis)) |-> LabelFor(a, t, a.axis, k)]
\* distinct labels in order of first appearance
RECURSIVE FirstSeen(_, _)
FirstSeen(labels, seen) ==
  IF labels = <<>> THEN <<>>
  ELSE LET h == Head(labels)
           key == <<h.none, IF h.none THEN "" ELSE h.label>>
       IN IF key \in seen THEN FirstSeen(Tail(labels), seen)
          ELSE <<h>> \o FirstSeen(Tail(labels), seen \cup {key})
PartsModel(a, t) ==
  LET labels == LabelsModel(a, t)
      use == SelectSeq(labels, LAMBDA x : ~(a.ignore_none /\ x.none))
      keys == FirstSeen(use, {})
  IN [p \in 1..Len(keys) |->
        LET mem == {x.id : x \in {labels[k] : k \in {q \in 1..Len(labels) :
                        labels[q].none = keys[p].none /\ (keys[p].none \/ labels[q].label = keys[p].label)
                        /\ ~(a.ignore_none /\ labels[q].none)}}}
            part == FilterIds(t, mem, a.axis, FALSE)
        IN [label |-> keys[p].label, none |-> keys[p].none,
            t |-> Fresh(IF a.remove_empty THEN RemoveEmpty(part, "whole") ELSE part)]]

CollapseModel(a, t) ==
  LET ax == a.axis
      oth == Other(ax)
      labels == LabelsModel(a, t)
      keys0 == FirstSeen(labels, {})
      keys == SelectSeq(keys0, LAMBDA x : Cardinality(Members(labels, x.label)) >= a.min_group_size)
      ids == [p \in 1..Len(keys) |-> keys[p].label]
      cell(L, oid) == LET mem == Members(labels, L)
                          s == SumOverSet(mem, [id \in mem |-> VecOn(t, ax, id, oid)])
                      IN IF a.norm THEN DivNat(s, Cardinality(mem)) ELSE s
      md == IF a.include_collapsed_metadata
            THEN [has |-> TRUE, rows |-> [p \in 1..Len(ids) |->
                     <<<<"collapsed_ids", "l", SelectSeq(Ids(t, ax), LAMBDA x : x \in Members(labels, ids[p]))>>>>]]
            ELSE NoMd
  IN IF ax = "observation"
     THEN [obs |-> ids, samp |-> t.samp, mat |-> [k \in 1..Len(ids) |-> [m \in 1..Len(t.samp) |-> cell(ids[k], t.samp[m])]],
           omd |-> md, smd |-> t.smd, type |-> t.type, tid |-> t.tid]
     ELSE [obs |-> t.obs, samp |-> ids, mat |-> [m \in 1..Len(t.obs) |-> [k \in 1..Len(ids) |-> cell(ids[k], t.obs[m])]],
           omd |-> t.omd, smd |-> md, type |-> t.type, tid |-> t.tid]

CollapseOtmModel(a, t) ==
  LET ax == a.axis
      oth == Other(ax)
      gs == a.groups
      S == SeqSet(Ids(t, ax))
      ids == NatSortedSet(AllGroups(gs, Ids(t, ax)))
      cell(g, oid) == SumOverSet(S, [id \in S |->
                         LET w == Mul(VecOn(t, ax, id, oid), R(Mult(gs, id, g))) IN
                         IF a.mode = "divide" /\ Len(GroupsOf(gs, id)) > 0 THEN DivNat(w, Len(GroupsOf(gs, id))) ELSE w])
      md == [has |-> TRUE, rows |-> [p \in 1..Len(ids) |-> <<<<"Path", "l", <<ids[p]>>>>>>]]
  IN IF ax = "observation"
     THEN [obs |-> ids, samp |-> t.samp, mat |-> [k \in 1..Len(ids) |-> [m \in 1..Len(t.samp) |-> cell(ids[k], t.samp[m])]],
           omd |-> md, smd |-> t.smd, type |-> t.type, tid |-> t.tid]
     ELSE [obs |-> t.obs, samp |-> ids, mat |-> [m \in 1..Len(t.obs) |-> [k \in 1..Len(ids) |-> cell(ids[k], t.obs[m])]],
           omd |-> t.omd, smd |-> md, type |-> t.type, tid |-> t.tid]

\* one allowed outcome of subsampling (the first n unit counts of every vector / the first n IDs)
RECURSIVE TakeUnits(_, _)
TakeUnits(vec, n) ==
  IF vec = <<>> THEN <<>>
  ELSE LET c == Head(vec)[1]
           k == IF c < n THEN c ELSE n
       IN <<R(k)>> \o TakeUnits(Tail(vec), n - k)
SubsampleModel(a, t) ==
  LET ax == a.axis
      ids == Ids(t, ax)
  IN IF a.by_id
     THEN RemoveEmpty(Take(t, ax, IdxSeq(Min2(a.n, Len(ids)))), Other(ax))
     ELSE LET keepIdx == SelectSeq(IdxSeq(Len(ids)), LAMBDA k :
                            IF a.with_replacement THEN IsPos(VecSum(Vec(t, ax, k)))
                            ELSE Leq(R(a.n), VecSum(Vec(t, ax, k))))
              kept == Take(t, ax, keepIdx)
              \* with replacement: put all n draws on the first non-zero entry
              newvec(v) == IF a.with_replacement
                           THEN [m \in 1..Len(v) |-> IF m = (CHOOSE q \in 1..Len(v) : ~IsZero(v[q]) /\ \A r \in 1..(q - 1) : IsZero(v[r]))
                                                      THEN R(a.n) ELSE Zero]
                           ELSE TakeUnits(v, a.n)
              drawn == IF ax = "observation"
                       THEN [kept EXCEPT !.mat = [i \in 1..Len(kept.obs) |-> newvec(kept.mat[i])]]
                       ELSE LET cols == [j \in 1..Len(kept.samp) |-> newvec(Col(kept, j))] IN
                            [kept EXCEPT !.mat = [i \in 1..Len(kept.obs) |-> [j \in 1..Len(kept.samp) |-> cols[j][i]]]]
          IN RemoveEmpty(drawn, Other(ax))

(********************************* files **********************************)
RECURSIVE Flatten(_)
Flatten(ss) == IF ss = <<>> THEN <<>> ELSE Head(ss) \o Flatten(Tail(ss))
NZPos(v) == SelectSeq(IdxSeq(Len(v)), LAMBDA j : ~IsZero(v[j]))
RECURSIVE Offsets(_, _)
Offsets(lens, acc) == IF lens = <<>> THEN <<acc>> ELSE <<acc>> \o Offsets(Tail(lens), acc + Head(lens))
\* compressed view of a sequence of vectors
EncodeView(vecs) ==
  [data |-> Flatten([k \in 1..Len(vecs) |-> [q \in 1..Len(NZPos(vecs[k])) |-> vecs[k][NZPos(vecs[k])[q]]]]),
   indices |-> Flatten([k \in 1..Len(vecs) |-> [q \in 1..Len(NZPos(vecs[k])) |-> NZPos(vecs[k])[q] - 1]]),
   indptr |-> Offsets([k \in 1..Len(vecs) |-> Len(NZPos(vecs[k]))], 0),
   dt_data |-> "float64", dt_indices |-> "int32", dt_indptr |-> "int32"]
MdNames(t, ax) == IF Md(t, ax).has /\ Len(Md(t, ax).rows) > 0
                  THEN LET ks == SetToSeq(RowKeys(SeqSet(Md(t, ax).rows[1]))) IN
                       [k \in 1..Len(ks) |-> [name |-> ks[k], len |-> Len(Ids(t, ax))]]
                  ELSE <<>>
EncodeRaw(t) ==
  [attrs |-> [present |-> SetToSeq(ReqAttrs), id |-> IF t.tid = "" THEN "No Table ID" ELSE t.tid, type |-> t.type,
              url |-> "http://biom-format.org", gen |-> "gen", date |-> "d", version |-> <<2, 1>>,
              shape |-> <<Len(t.obs), Len(t.samp)>>, nnz |-> Nnz(t)],
   groups |-> SetToSeq(ReqGroups), datasets |-> SetToSeq(ReqDatasets),
   obs |-> EncodeView(t.mat) @@ [ids |-> t.obs, md |-> MdNames(t, "observation"), gmd |-> <<>>],
   samp |-> EncodeView([j \in 1..Len(t.samp) |-> Col(t, j)]) @@ [ids |-> t.samp, md |-> MdNames(t, "sample"), gmd |-> <<>>]]
ModelHdr == [gen |-> "gen", date |-> "d", gmd_obs |-> <<>>, gmd_samp |-> <<>>]
H5Md(t, ax) == IF Md(t, ax).has
               THEN [has |-> TRUE, rows |-> [k \in 1..Len(Md(t, ax).rows) |-> SetToSeq(H5Row(t, ax, k))]]
               ELSE Md(t, ax)
HNorm(t) == [t EXCEPT !.tid = IF t.tid = "" THEN "No Table ID" ELSE t.tid,
                      !.omd = H5Md(t, "observation"), !.smd = H5Md(t, "sample")]
\* what a correct implementation exports / answers is a function of the content alone
ExportsOf(t) ==
  [tsv  |-> [ok |-> TRUE, obs |-> t.obs, samp |-> t.samp, mat |-> t.mat],
   json |-> [ok |-> TRUE, obs |-> t.obs, samp |-> t.samp, mat |-> t.mat, omd |-> t.omd, smd |-> t.smd, type |-> t.type,
             shape |-> <<Len(t.obs), Len(t.samp)>>],
   hdf5 |-> [ok |-> InDomainC01(t), raw |-> EncodeRaw(t), loaded |-> HNorm(t)]]
QueriesOf(t) == <<"shape", "ids">>
JNorm(t) == [t EXCEPT !.tid = ""]
TsvNorm(t, key) ==
  [t EXCEPT !.tid = "", !.type = "", !.smd = NoMd,
            !.omd = IF key = "" THEN NoMd
                    ELSE [has |-> TRUE, rows |-> [k \in 1..Len(t.obs) |->
                            LET es == {e \in RowAt(t, "observation", k) : e[1] = key /\ e[2] = "l" /\ Len(e[3]) > 0} IN
                            IF es = {} THEN <<<<key, "l", <<"None">>>>>> ELSE SetToSeq(es)]]]
TsvExportable(t, key) ==
  key = "" \/ (t.omd.has /\ \E k \in 1..Len(t.omd.rows) :
                 \E e \in SeqSet(t.omd.rows[k]) : e[1] = key /\ e[2] = "l" /\ Len(e[3]) > 0)
SubsetWant(whole, a) ==
  LET f1 == FilterIds(whole, SeqSet(a.ids), a.axis, FALSE)
      f2 == IF DropsEmpties(a.variant) THEN DropEmpty1(f1, Other(a.axis)) ELSE f1
  IN IF a.variant = "from_hdf5_nomd" THEN StripMd(f2) ELSE f2

(************************ summaries and construction ***********************)
SummaryValue(t, a) ==
  CASE a.kind = "sum" -> IF a.axis = "whole" THEN <<Total(t)>> ELSE SumAxis(t, a.axis)
    [] a.kind \in {"min", "max"} ->
         IF a.axis = "whole"
         THEN <<IF a.kind = "min" THEN MinSeq(NZVals(Flat(t))) ELSE MaxSeq(NZVals(Flat(t)))>>
         ELSE [k \in 1..Len(Ids(t, a.axis)) |->
                 IF a.kind = "min" THEN MinSeq(NZVals(Vec(t, a.axis, k))) ELSE MaxSeq(NZVals(Vec(t, a.axis, k)))]
    [] a.kind = "nonzero_counts" ->
         IF a.axis = "whole" THEN <<IF a.binary THEN R(Nnz(t)) ELSE Total(t)>>
         ELSE [k \in 1..Len(Ids(t, a.axis)) |-> IF a.binary THEN R(NnzVec(Vec(t, a.axis, k))) ELSE VecSum(Vec(t, a.axis, k))]
    [] a.kind = "density" -> DensityOf(t)
    [] a.kind = "reduce" -> [k \in 1..Len(Ids(t, a.axis)) |-> ReduceVec(a.f, Vec(t, a.axis, k))]
    [] a.kind = "stats" ->
         LET ps == PerSample(t, a.binary) IN
         [min |-> MinSeq(ps), max |-> MaxSeq(ps), median |-> MedianOf(ps), mean |-> MeanOf(ps),
          counts |-> [j \in 1..Len(t.samp) |-> <<t.samp[j], ps[j]>>]]
    [] a.kind = "cli_summarize" ->
         LET u == IF a.observations THEN Transpose(t) ELSE t
             ps == PerSample(u, a.qualitative)
             order == SortSeq(IdxSeq(Len(u.samp)), LAMBDA x, y : Less(ps[x], ps[y]))
         IN [num_samples |-> Len(t.samp), num_observations |-> Len(t.obs), total |-> Total(t), density |-> DensityOf(t),
             min |-> MinSeq(ps), max |-> MaxSeq(ps), median |-> MedianOf(ps), mean |-> MeanOf(ps),
             detail |-> [k \in 1..Len(order) |-> <<u.samp[order[k]], ps[order[k]]>>],
             smd_keys |-> SetToSeq(AllKeys(t, "sample")), omd_keys |-> SetToSeq(AllKeys(t, "observation"))]
    [] a.kind = "cli_table_ids" -> Ids(t, a.axis)
    [] a.kind = "cli_head" -> LET w == HeadT(t, a.n, a.m) IN [obs |-> w.obs, samp |-> w.samp, mat |-> w.mat]
    [] a.kind = "to_dataframe" -> [index |-> t.obs, columns |-> t.samp, mat |-> t.mat]
    [] a.kind \in {"md_dataframe", "cli_export_metadata"} ->
         LET ks == SetToSeq(ScalarKeys(t, a.axis)) IN
         [index |-> Ids(t, a.axis), columns |-> ks,
          rows |-> [k \in 1..Len(Ids(t, a.axis)) |-> [c \in 1..Len(ks) |->
                      LET e == CHOOSE x \in RowAt(t, a.axis, k) : x[1] = ks[c] IN <<e[2], e[3]>>]]]
    [] OTHER -> FALSE

\* the table the adjacency / uc records describe (IDs in natural order)
AdjModel(recs) ==
  LET oo == NatSortedSet({recs[k][1] : k \in 1..Len(recs)})
      so == NatSortedSet({recs[k][2] : k \in 1..Len(recs)})
  IN [obs |-> oo, samp |-> so, mat |-> [i \in 1..Len(oo) |-> [j \in 1..Len(so) |-> RecSum(recs, oo[i], so[j])]],
      omd |-> NoMd, smd |-> NoMd, type |-> "", tid |-> ""]
UcModel(recs) ==
  LET oo == NatSortedSet({recs[k][2] : k \in {x \in 1..Len(recs) : recs[x][1] \in {"H", "S", "L"}}})
      so == NatSortedSet({recs[k][3] : k \in {x \in 1..Len(recs) : recs[x][1] \in {"H", "S"}}})
  IN [obs |-> oo, samp |-> so, mat |-> [i \in 1..Len(oo) |-> [j \in 1..Len(so) |-> R(UcCount(recs, oo[i], so[j]))]],
      omd |-> NoMd, smd |-> NoMd, type |-> "", tid |-> ""]

(******************************* validator ********************************)
\* which well-formedness fact a mutation falsifies (the ideal validator of the model reports
\* valid exactly when every fact holds)
Pre(m, p) == Len(m) >= Len(p) /\ SubSeq(m, 1, Len(p)) = p
MutFacts(fmt, muts) ==
  LET has(P(_)) == \E k \in 1..Len(muts) : P(muts[k])
      missing == has(LAMBDA m : Pre(m, "del:") \/ Pre(m, "rename:") \/ Pre(m, "delattr:") \/ Pre(m, "delgrp:")
                                \/ Pre(m, "delds:") \/ m \in {"ids:del_row_id", "ids:del_col_md"})
  IN [parse_ok |-> TRUE,
      required_present |-> ~missing,
      shape_matches_ids |-> ~has(LAMBDA m : Pre(m, "shape:")),
      coords_in_shape |-> ~has(LAMBDA m : m \in {"coord:row_out", "coord:col_out", "coord:negative", "coord:obs_index_out",
                                                  "coord:samp_index_out", "coord:obs_index_negative"}),
      element_types_ok |-> ~has(LAMBDA m : Pre(m, "type:") \/ m \in {"coord:index_text", "coord:value_text", "coord:malformed",
                                                                        "coord:col_index_float", "coord:row_index_float", "coord:col_index_text",
                                                                        "coord:row_index_bool", "coord:col_index_bool", "coord:value_bool"}),
      ids_nonempty_unique |-> ~has(LAMBDA m : m \in {"ids:dup_row", "ids:dup_col", "ids:blank_row", "ids:blank_col",
                                                      "ids:dup_obs", "ids:dup_samp", "ids:blank_obs", "ids:blank_samp"}),
      metadata_object_or_null |-> ~has(LAMBDA m : m \in {"md:row_text", "md:col_list", "md:row_number"}),
      numeric |-> TRUE]

(***************************** model events ******************************)
NatSorted(ids) == SortSeq(ids, LAMBDA x, y : NatRank[x] < NatRank[y])
SortF(f, ids) ==
  CASE f = "natsort" -> NatSorted(ids)
    [] f = "reverse" -> Reverse(NatSorted(ids))
    [] OTHER         -> IF ids = <<>> THEN ids ELSE Tail(ids) \o <<Head(ids)>>   \* "rotate"

ModelEvent(h, st) ==
  LET pre == h[st.recv]
      a   == st.args
  IN CASE st.call = "filter" ->
       IF a.mode = "ids"
       THEN InplaceEv(st, h, SeqSet(a.ids) \subseteq SeqSet(Ids(pre, a.axis)),
                      Fresh(FilterIds(pre, SeqSet(a.ids) \cap SeqSet(Ids(pre, a.axis)), a.axis, a.invert)))
       ELSE LET calls == PredCalls(pre, a)
                acc   == {calls[k].id : k \in {x \in 1..Len(calls) : calls[x].ret}}
                r     == Fresh(FilterIds(pre, acc, a.axis, a.invert))
                e     == InplaceEv(st, h, TRUE, r)
            IN [e EXCEPT !.obs = e.obs @@ [calls |-> calls, byids_out |-> "ok", byids |-> r]]
     [] st.call = "remove_empty" -> InplaceEv(st, h, TRUE, Fresh(RemoveEmpty(pre, a.axis)))
     [] st.call = "head" ->
          NewEv(st, h, a.n > 0 /\ a.m > 0, Fresh(HeadT(pre, a.n, a.m)), [ret_is_recv |-> FALSE])
     [] st.call = "align_df" ->
          LET common == SeqSet(a.index) \cap SeqSet(Ids(pre, a.axis))
              r == Fresh(RemoveEmpty(FilterIds(pre, common, a.axis, FALSE), "whole"))
          IN NewEv(st, h, common # {}, r,
                   [ret_is_recv |-> FALSE, frame_index |-> IF common # {} THEN Ids(r, a.axis) ELSE <<>>])
     [] st.call = "sort_order" ->
          NewEv(st, h, TRUE, Fresh(SortOrder(pre, a.order, a.axis)), [ret_is_recv |-> FALSE])
     [] st.call = "sort" ->
          LET o == SortF(a.f, Ids(pre, a.axis)) IN
          NewEv(st, h, TRUE, Fresh(SortOrder(pre, o, a.axis)),
                [ret_is_recv |-> FALSE, sort_in |-> Ids(pre, a.axis), sort_out |-> o])
     [] st.call = "transpose" -> NewEv(st, h, TRUE, Fresh(Transpose(pre)), [ret_is_recv |-> FALSE])
     [] st.call = "copy" ->
          NewEv(st, h, TRUE, Fresh([pre EXCEPT !.tid = pre.tid]),
                [ret_is_recv |-> FALSE, eq_orig |-> TRUE, eq_orig_rev |-> TRUE, ne_orig |-> FALSE])
     [] st.call = "update_ids" ->
          InplaceEv(st, h, Ids(pre, a.axis) # <<>> /\ UpdateIdsOk(pre, MapOf(a.map), a.axis, a.strict),
                    Fresh(UpdateIds(pre, MapOf(a.map), a.axis)))
     [] st.call = "align_to" ->
          LET oth == h[a.other]
              ao  == SeqSet(pre.obs) = SeqSet(oth.obs) /\ Len(pre.obs) = Len(oth.obs)
              as  == SeqSet(pre.samp) = SeqSet(oth.samp) /\ Len(pre.samp) = Len(oth.samp)
              possible == CASE a.axis = "both" -> ao /\ as [] a.axis = "sample" -> as
                            [] a.axis = "observation" -> ao [] OTHER -> ao \/ as
              doO == (a.axis \in {"both", "observation"}) \/ (a.axis = "detect" /\ ao)
              doS == (a.axis \in {"both", "sample"}) \/ (a.axis = "detect" /\ as)
              t1  == IF doS /\ possible THEN SortOrder(pre, oth.samp, "sample") ELSE pre
              t2  == IF doO /\ possible THEN SortOrder(t1, oth.obs, "observation") ELSE t1
          IN NewEv(st, h, possible, Fresh(t2), [ret_is_recv |-> FALSE])
     [] st.call = "read" ->
          IF ReadDefined(pre, a) THEN Ev(st, h, h, "ok", [value |-> ReadValue(pre, a)])
          ELSE Ev(st, h, h, "error", [value |-> FALSE])
     [] st.call = "probe" ->
          Ev(st, h, h, "ok", [via |-> <<[name |-> "model", mat |-> pre.mat]>>, nnz |-> Nnz(pre),
                              density |-> DensityOf(pre)])
     [] st.call = "eq" ->
          LET e == EqContent(pre, h[a.other]) IN
          Ev(st, h, h, "ok", [eq |-> e, ne |-> ~e, eq_rev |-> e, eq_self |-> TRUE, desc_equal |-> e,
                              eq_again |-> e])
     [] st.call = "eq3" ->
          LET ab == EqContent(h["a"], h["b"])
              bc == EqContent(h["b"], h["c"])
              ac == EqContent(h["a"], h["c"])
          IN Ev(st, h, h, "ok", [ab |-> ab, ba |-> ab, bc |-> bc, cb |-> bc, ac |-> ac, ca |-> ac])
     [] st.call = "eqx" ->
          LET e == EqContent(pre, h[a.other]) IN
          Ev(st, h, h, "ok", [eq |-> e, exp_a |-> ExportsOf(pre), exp_b |-> ExportsOf(h[a.other]),
                              q_a |-> QueriesOf(pre), q_b |-> QueriesOf(h[a.other])])
     [] st.call = "add_metadata" ->
          Ev(st, h, Put(h, st.recv, Fresh(AddMd(pre, a.md, a.axis))), "ok", [none |-> TRUE])
     [] st.call = "del_metadata" ->
          Ev(st, h, Put(h, st.recv, Fresh(DelMd(pre, a))), "ok", [none |-> TRUE])
     [] st.call = "transform" ->
          LET r  == Fresh(TransformT(pre, a))
              e  == InplaceEv(st, h, TRUE, r)
              ew == a.f \in ElementwiseFs
          IN [e EXCEPT !.obs = e.obs @@ [calls |-> TransformCalls(pre, a), elementwise |-> ew,
                                         other_axis_out |-> "ok",
                                         other_axis |-> IF ew THEN Fresh(TransformT(pre, [a EXCEPT !.axis = Other(a.axis)]))
                                                        ELSE r]]
     [] st.call = "norm" -> InplaceEv(st, h, TRUE, Fresh(NormT(pre, a.axis)))
     [] st.call = "pa" -> InplaceEv(st, h, TRUE, Fresh(PA(pre)))
     [] st.call = "rankdata" ->
          InplaceEv(st, h, TRUE, Fresh(RankT(pre, a.axis, IF a.method = "ordinal" THEN "ordinal_model" ELSE a.method)))
     [] st.call = "merge" ->
          LET tabs == <<pre>> \o [k \in 1..Len(a.others) |-> h[a.others[k]]]
              wantS == IF a.sample = "union" THEN UnionIds(tabs, "sample") ELSE InterIds(tabs, "sample")
              wantO == IF a.observation = "union" THEN UnionIds(tabs, "observation") ELSE InterIds(tabs, "observation")
              r == Fresh(MergeModel(tabs, a))
          IN NewEv(st, h, wantS # {} /\ wantO # {} /\ \A k \in 1..Len(tabs) : ~IsEmptyTable(tabs[k]), r,
                   [ret_is_recv |-> FALSE, alt_ran |-> FALSE, alt_out |-> "ok", alt |-> r,
                    mdcalls |-> IF (a.smf = "custom" \/ a.omf = "custom") /\ Len(tabs) = 2 /\ AnyMd(tabs)
                                THEN MdCallsModel(tabs, r, a) ELSE <<>>])
     [] st.call = "concat" ->
          LET tabs == <<pre>> \o [k \in 1..Len(a.others) |-> h[a.others[k]]] IN
          NewEv(st, h, ConcatDisjoint(tabs, a.axis) /\ \A k \in 1..Len(tabs) : ~IsEmptyTable(tabs[k]),
                Fresh(ConcatModel(tabs, a.axis)), [ret_is_recv |-> FALSE])
     [] st.call = "partition" ->
          Ev(st, h, h, "ok", [labels |-> LabelsModel(a, pre), parts |-> PartsModel(a, pre)])
     [] st.call = "collapse" ->
          IF a.one_to_many
          THEN NewEv(st, h, Md(pre, a.axis).has /\ AllGroups(a.groups, Ids(pre, a.axis)) # {},
                     Fresh(CollapseOtmModel(a, pre)), [ret_is_recv |-> FALSE, labels |-> <<>>])
          ELSE LET r == Fresh(CollapseModel(a, pre)) IN
               NewEv(st, h, Len(Ids(r, a.axis)) > 0, r, [ret_is_recv |-> FALSE, labels |-> LabelsModel(a, pre)])
     [] st.call = "subsample" ->
          LET r == Fresh(SubsampleModel(a, pre)) IN
          NewEv(st, h, TRUE, r, [ret_is_recv |-> FALSE, again_out |-> "ok", again |-> r])
     [] st.call = "rt_hdf5" ->
          IF InDomainC01(pre)
          THEN LET w == IF a.save_via = "cli" /\ pre.type = "" THEN [pre EXCEPT !.type = "Table"] ELSE pre IN
               Ev(st, h, Put(h, st.res, Fresh(HNorm(w))), "ok",
                  [wrote |-> "ok", raw |-> EncodeRaw(w), hdr |-> ModelHdr, src_hdr |-> ModelHdr])
          ELSE Ev(st, h, h, "error", [wrote |-> "refused", raw |-> EncodeRaw(pre), hdr |-> ModelHdr, src_hdr |-> ModelHdr])
     [] st.call = "rt_json" ->
          IF IsEmptyTable(pre)
          THEN Ev(st, h, h, "error", [wrote |-> "ok", wellformed_string |-> TRUE, wellformed_stream |-> TRUE,
                                      same_document |-> TRUE, hdr |-> ModelHdr, src_hdr |-> ModelHdr])
          ELSE Ev(st, h, Put(h, st.res, Fresh(JNorm(pre))), "ok",
                  [wrote |-> "ok", wellformed_string |-> TRUE, wellformed_stream |-> TRUE, same_document |-> TRUE,
                   hdr |-> ModelHdr, src_hdr |-> ModelHdr])
     [] st.call = "rt_tsv" ->
          IF IsEmptyTable(pre) \/ ~TsvExportable(pre, a.header_key)
             \/ (a.save_via = "cli" /\ a.header_key # "" /\ ~\A k \in 1..Len(pre.obs) :
                     \E e \in RowAt(pre, "observation", k) : e[1] = a.header_key /\ e[2] = "l" /\ Len(e[3]) > 0)
          THEN Ev(st, h, h, "error", [wrote |-> "refused", hdr |-> ModelHdr, src_hdr |-> ModelHdr])
          ELSE Ev(st, h, Put(h, st.res, Fresh(TsvNorm(pre, a.header_key))), "ok",
                  [wrote |-> "ok", hdr |-> ModelHdr, src_hdr |-> ModelHdr])
     [] st.call = "subset_read" ->
          LET okw == IF a.fmt = "hdf5" THEN InDomainC01(pre) ELSE ~IsEmptyTable(pre)
              whole == IF a.fmt = "hdf5" THEN HNorm(pre) ELSE JNorm(pre)
              known == SeqSet(a.ids) \subseteq SeqSet(Ids(pre, a.axis))
              want == SubsetWant(whole, a)
          IN IF ~okw THEN Ev(st, h, h, "error", [wrote |-> "refused", whole_out |-> "ok", whole |-> Fresh(whole),
                                                  styles_agree |-> TRUE, hdr |-> ModelHdr])
             ELSE IF ~known \/ a.ids = <<>> \/ IsEmptyTable(want)
             THEN Ev(st, h, h, "error", [wrote |-> "ok", whole_out |-> "ok", whole |-> Fresh(whole),
                                         styles_agree |-> TRUE, hdr |-> ModelHdr])
             ELSE Ev(st, h, Put(h, st.res, Fresh(want)), "ok",
                     [wrote |-> "ok", whole_out |-> "ok", whole |-> Fresh(whole), styles_agree |-> TRUE, hdr |-> ModelHdr])
     [] st.call = "summary" ->
          IF SummaryDefined(pre, a) THEN Ev(st, h, h, "ok", [value |-> SummaryValue(pre, a)])
          ELSE Ev(st, h, h, "error", [value |-> FALSE])
     [] st.call = "construct" ->
          IF IsEmptyTable(pre) \/ ~Expressible(a.form, pre)
          THEN Ev(st, h, h, "error", [eq_ref |-> FALSE, eq_ref_rev |-> FALSE, skipped |-> FALSE])
          ELSE Ev(st, h, Put(h, st.res, Fresh(pre)), "ok", [eq_ref |-> TRUE, eq_ref_rev |-> TRUE, skipped |-> FALSE])
     [] st.call = "construct_bad" -> Ev(st, h, h, "table_error", [skipped |-> FALSE])
     [] st.call = "from_adjacency" ->
          IF a.records = <<>> THEN Ev(st, h, h, "error", [none |-> TRUE])
          ELSE Ev(st, h, Put(h, st.res, Fresh(AdjModel(a.records))), "ok", [none |-> TRUE])
     [] st.call = "parse_uc" ->
          IF \A k \in 1..Len(a.records) : a.records[k][1] \notin {"H", "S"} THEN Ev(st, h, h, "error", [none |-> TRUE])
          ELSE LET u == UcModel(a.records)
                   v == IF a.via = "cli_repset" THEN [u EXCEPT !.obs = [k \in 1..Len(u.obs) |-> u.obs[k] \o "~R"]] ELSE u
                   \* the command writes HDF5: the loaded table carries the placeholder table id
                   w == IF a.via = "api" THEN v ELSE HNorm(v)
               IN Ev(st, h, Put(h, st.res, Fresh(w)), "ok", [none |-> TRUE])
     [] st.call = "validate" ->
          LET f == MutFacts(a.fmt, a.muts)
              decl == [obs |-> pre.obs, samp |-> pre.samp, mat |-> pre.mat]
          IN Ev(st, h, h, "ok", [wrote |-> "ok", facts |-> f,
                                 valid |-> WellFormedFacts(f) /\ ~\E k \in 1..Len(a.muts) : Pre(a.muts[k], "hdr:"),
                                 loaded |-> "ok", declared |-> decl, got |-> decl])
     [] st.call = "mapfile" ->
          IF MapFileOk(a.lines, a.opts) /\ HeaderFirst(a.lines, a.opts)
          THEN Ev(st, h, h, "ok", [parsed |-> LET r == RefMap(a.lines, a.opts) IN
                                              [k \in 1..Len(r) |-> <<r[k][1], SetToSeq(r[k][2])>>]])
          ELSE Ev(st, h, h, "error", [parsed |-> <<>>])
     [] st.call = "cli_add_metadata" ->
          IF MapFileOk(a.lines, a.opts) /\ HeaderFirst(a.lines, a.opts) /\ InDomainC01(pre)
             /\ (a.json \/ SeqSet(a.opts.sc) \subseteq {"taxonomy"})
             /\ (a.json \/ HomogeneousKinds(a.lines, a.opts))
             /\ (a.json \/ ListsNonEmpty(a.lines, a.opts))
             /\ (a.json \/ SeqSet(Ids(pre, a.axis)) \subseteq {RefMap(a.lines, a.opts)[k][1] : k \in 1..Len(RefMap(a.lines, a.opts))})
          THEN LET r == RefMap(a.lines, a.opts)
                   md == [k \in 1..Len(r) |-> <<r[k][1], SetToSeq(r[k][2])>>]
               IN Ev(st, h, Put(h, st.res, Fresh(IF a.json THEN JNorm(AddMd(pre, md, a.axis)) ELSE HNorm(AddMd(pre, md, a.axis)))),
                "ok", [wrote |-> "ok"])
          ELSE Ev(st, h, h, "error", [wrote |-> "refused"])
     [] OTHER -> Ev(st, h, h, "error", [nothing |-> TRUE])

(************************** argument alphabets ***************************)
\* record multisets for the importers, over 2 x 2 IDs (repeated pairs, zero values, negative values)
AdjRecordSets ==
  {<<<<"o1", "s1", R(2)>>>>,
   <<<<"o1", "s1", R(2)>>, <<"o1", "s1", R(3)>>>>,
   <<<<"o1", "s1", R(2)>>, <<"o2", "s2", R(5)>>, <<"o1", "s1", R(1)>>, <<"o2", "s1", R(4)>>>>,
   <<<<"o2", "s2", <<1, 2>>>>, <<"o1", "s2", R(3)>>, <<"o2", "s2", <<1, 2>>>>, <<"o2", "s2", R(1)>>>>,
   <<<<"o1", "s1", R(0)>>, <<"o2", "s2", R(7)>>>>,
   <<<<"o2", "s1", R(-1)>>, <<"o2", "s1", R(1)>>, <<"o1", "s2", R(2)>>>>}
UcRecordSets ==
  {<<<<"S", "o1", "s1">>>>,
   <<<<"S", "o1", "s1">>, <<"H", "o1", "s1">>, <<"H", "o1", "s2">>>>,
   <<<<"S", "o1", "s1">>, <<"L", "o2", "s2">>, <<"H", "o1", "s1">>, <<"S", "o2", "s2">>, <<"H", "o2", "s1">>, <<"H", "o2", "s1">>>>,
   <<<<"L", "o2", "s1">>, <<"S", "o1", "s2">>, <<"N", "o1", "s1">>>>,
   <<<<"H", "o2", "s2">>, <<"C", "o2", "s2">>, <<"H", "o2", "s2">>, <<"S", "o2", "s2">>>>}

\* mapping-file lines over a small grammar; ids name IDs of the table (and one unknown ID)
MapLine(kind, fields, deco) == [kind |-> kind, fields |-> fields, deco |-> deco]
MapLines(i1, i2) ==
  {MapLine("hash", <<"ID", "k1", "k2">>, "plain"), MapLine("hash", <<"ID", "k1", "k2", "k3">>, "spaced"),
   MapLine("hash", <<"just a comment">>, "plain"), MapLine("blank", <<>>, "plain"),
   MapLine("row", <<i1, "x", "7">>, "plain"), MapLine("row", <<i1, "p;q", "2.5">>, "quoted"),
   MapLine("row", <<i2, "y">>, "plain"), MapLine("row", <<i2, "p; q ;r", "-3", "extra", "more">>, "spaced"),
   MapLine("row", <<"zz", "p;q|r", "10">>, "plain"), MapLine("row", <<i2, "a|b;c", "x">>, "quoted"),
   MapLine("row", <<i1, "", "7">>, "plain")}                                   \* an explicitly empty field
MapOpts ==
  LET O(h, i, f, s, p) == [header |-> h, ints |-> i, floats |-> f, sc |-> s, scpipe |-> p] IN
  {O(<<>>, <<>>, <<>>, <<>>, <<>>), O(<<>>, <<"k2">>, <<>>, <<"k1">>, <<>>), O(<<>>, <<>>, <<"k2">>, <<>>, <<"k1">>),
   O(<<"ID", "c1">>, <<>>, <<>>, <<"c1">>, <<>>), O(<<"ID", "c1", "c2">>, <<"c2">>, <<>>, <<>>, <<>>),
   O(<<"ID", "k1", "k2", "k3">>, <<"k1", "k2">>, <<"k2">>, <<>>, <<>>),
   O(<<"ID", "taxonomy", "n">>, <<"n">>, <<>>, <<"taxonomy">>, <<>>), O(<<"ID", "taxonomy">>, <<>>, <<>>, <<"taxonomy">>, <<>>),
   \* a list conversion on a column that short rows do not reach
   O(<<>>, <<>>, <<>>, <<"k2">>, <<>>), O(<<>>, <<>>, <<>>, <<"k1">>, <<"k2">>)}
\* all line sequences of length <= n
\* deterministic stride sample of k elements of S (k = 0: all)
Sample(S, k, salt) ==
  IF k = 0 \/ Cardinality(S) <= k THEN S
  ELSE LET sq == SetToSeq(S)
           stride == Len(sq) \div k
           off == salt % stride
       IN {sq[off + 1 + (j - 1) * stride] : j \in 1..k}
RECURSIVE LineSeqs(_, _)
LineSeqs(L, n) == IF n = 0 THEN {<<>>} ELSE LineSeqs(L, n - 1) \cup {Append(s, l) : s \in LineSeqs(L, n - 1), l \in L}

SubSeqsOf(ids) == {SelectSeq(ids, LAMBDA x : x \in S) : S \in SUBSET SeqSet(ids)}
PermsOf(ids) == {[i \in 1..Len(ids) |-> ids[p[i]]] : p \in Permutations(1..Len(ids))}
Forms == {"list", "rev", "set", "tuple", "array", "dictkeys"}

FirstOf(s) == IF s = <<>> THEN <<>> ELSE <<s[1]>>
RestOf(s)  == IF s = <<>> THEN <<>> ELSE Tail(s)
St(call, recv, res, args) == [call |-> call, recv |-> recv, res |-> res, args |-> args]

\* TLC evaluates set constructors with dependent bounds only through UNION; the
\* helper below builds {f(ax, s) : ax \in Axes, s \in G(ax)} explicitly.
FilterSteps(h, recv, res, full) ==
  LET t == h[recv] IN
  UNION {
    LET idsets == IF full THEN SubSeqsOf(Ids(t, ax)) \cup {Ids(t, ax) \o <<"zz">>}
                               \cup {<<"zz">> \o RestOf(Ids(t, ax))}              \* as long as the axis, one unknown
                               \cup {FirstOf(Ids(t, ax)) \o Ids(t, ax)}           \* a repeated ID
                               \cup {FirstOf(Ids(t, ax)) \o FirstOf(Ids(t, ax)) \o RestOf(RestOf(Ids(t, ax)))}
                  ELSE {FirstOf(Ids(t, ax)), RestOf(Ids(t, ax))}
        preds  == IF full THEN {"first_nonzero", "last_nonzero", "any_nonzero", "by_md", "all"}
                  ELSE {"last_nonzero"}
    IN {St("filter", recv, res,
           [mode |-> "ids", ids |-> s, form |-> f, invert |-> inv, inplace |-> ip, axis |-> ax,
            pred |-> "", mdkey |-> "", mdval |-> ""]) :
          s \in idsets, f \in (IF full THEN Forms ELSE {"list"}), inv \in BOOLEAN, ip \in BOOLEAN}
       \cup
       {St("filter", recv, res,
           [mode |-> "pred", ids |-> <<>>, form |-> "list", invert |-> inv, inplace |-> ip, axis |-> ax,
            pred |-> p, mdkey |-> "k1", mdval |-> "x"]) :
          p \in preds, inv \in BOOLEAN, ip \in BOOLEAN}
       \cup
       (IF full THEN
          {St("filter", recv, res,
              [mode |-> "pred", ids |-> s, form |-> "list", invert |-> inv, inplace |-> ip, axis |-> ax,
               pred |-> "by_id", mdkey |-> "", mdval |-> ""]) :
             s \in SubSeqsOf(Ids(t, ax)), inv \in BOOLEAN, ip \in BOOLEAN}
        ELSE {})
    : ax \in Axes}

RenamePool == <<"n1", "n2", "n3", "n4", "n5", "n6">>
RenameMaps(ids) ==
  LET n == Len(ids) IN
  IF n = 0 THEN {}
  ELSE { [k \in 1..n |-> <<ids[k], RenamePool[k]>>],                       \* rename everything
         <<<<ids[1], RenamePool[1]>>>>,                                     \* rename the first only
         <<<<ids[n], ids[1]>>>>,                                            \* collide with an existing ID
         [k \in 1..n |-> <<ids[k], ids[n + 1 - k]>>],                      \* reverse the names (injective)
         [k \in 1..n |-> <<ids[k], RenamePool[1]>>] }                      \* everything to one name

StepsFor(call, h, recv, res, full) ==
  LET t == h[recv] IN
  CASE call = "filter" -> FilterSteps(h, recv, res, full)
    [] call = "filter_pred" -> {x \in FilterSteps(h, recv, res, full) : x.args.mode = "pred"}
    [] call = "filter_ids"  -> {x \in FilterSteps(h, recv, res, full) : x.args.mode = "ids"}
    \* the property's own scope: every subset x invert x axis x inplace, as an ID list and as the equivalent predicate
    [] call = "filter_subsets" ->
         {x \in FilterSteps(h, recv, res, TRUE) :
            /\ x.args.ids \in SubSeqsOf(Ids(t, x.args.axis))
            /\ (x.args.mode = "ids" /\ x.args.form = "list") \/ (full /\ x.args.mode = "pred" /\ x.args.pred = "by_id")}
    [] call = "remove_empty" ->
         {St(call, recv, res, [axis |-> ax, inplace |-> ip]) :
            ax \in {"sample", "observation", "whole"}, ip \in BOOLEAN}
    [] call = "head" ->
         {St(call, recv, res, [n |-> n, m |-> m]) :
            n \in (IF full THEN {0, 1, 2, 5} ELSE {1}), m \in (IF full THEN {0, 1, 2, 5} ELSE {2})}
    [] call = "align_df" ->   \* the frame's index: any subset of the axis, in reverse order, with or without a stranger
         UNION {{St(call, recv, res, [index |-> ix, axis |-> ax]) :
                   ix \in (IF full THEN {Reverse(s) : s \in SubSeqsOf(Ids(t, ax))}
                                       \cup {<<"zz">> \o Reverse(s) : s \in SubSeqsOf(Ids(t, ax))}
                           ELSE {<<"zz">> \o Reverse(RestOf(Ids(t, ax)))})} : ax \in Axes}
    [] call = "sort_order" ->
         UNION {{St(call, recv, res, [order |-> o, axis |-> ax, form |-> f]) :
                   o \in (IF full THEN PermsOf(Ids(t, ax)) ELSE {Reverse(Ids(t, ax))}),
                   f \in (IF full THEN {"list", "array"} ELSE {"list"})} : ax \in Axes}
    [] call = "sort" ->
         {St(call, recv, res, [f |-> f, axis |-> ax]) :
            f \in (IF full THEN {"natsort", "reverse", "rotate"} ELSE {"reverse"}), ax \in Axes}
    [] call = "transpose" -> {St(call, recv, res, [none |-> TRUE])}
    [] call = "copy" -> {St(call, recv, res, [none |-> TRUE])}
    [] call = "update_ids" ->
         UNION {{St(call, recv, res, [map |-> mp, axis |-> ax, strict |-> sc, inplace |-> ip]) :
                   mp \in (IF full THEN RenameMaps(Ids(t, ax))
                           ELSE {[k \in 1..Len(Ids(t, ax)) |-> <<Ids(t, ax)[k], RenamePool[k]>>]}),
                   sc \in (IF full THEN BOOLEAN ELSE {TRUE}), ip \in BOOLEAN} : ax \in Axes}
    [] call = "align_to" ->
         IF "b" \in DOMAIN h /\ recv # "b"
         THEN {St(call, recv, res, [other |-> "b", axis |-> ax]) :
                 ax \in {"sample", "observation", "both", "detect"}}
         ELSE {}
    [] call = "read" ->
         LET o1 == IF t.obs = <<>> THEN "zz" ELSE t.obs[1]
             sl == IF t.samp = <<>> THEN "zz" ELSE t.samp[Len(t.samp)]
             RA(kind, ax, id) == [kind |-> kind, axis |-> ax, id |-> id, oid |-> o1, sid |-> sl]
         IN {St(call, recv, recv, RA(k, ax, IF ax = "observation" THEN o1 ELSE sl)) :
               k \in (IF full THEN {"nnz", "density", "data", "value", "iter", "iter_data", "pairwise", "nonzero",
                                    "sum", "nonzero_counts", "shape", "ids", "exists", "str", "repr", "eq_self",
                                    "min", "max", "to_dataframe", "is_empty"}
                      ELSE {"nnz", "data", "iter", "eq_self", "sum"}),
               ax \in Axes}
            \cup (IF full THEN {St(call, recv, recv, RA(k, "whole", "zz")) : k \in {"sum", "nonzero_counts"}} ELSE {})
    [] call = "probe" -> {St(call, recv, recv, [none |-> TRUE])}
    [] call = "eq" -> IF "b" \in DOMAIN h /\ recv # "b" THEN {St(call, recv, recv, [other |-> "b"])} ELSE {}
    \* order: in which sequence the driver exports (h, j, t), queries (q; Q = per-cell queries first) and compares (e)
    \* the two live tables
    [] call = "eq3" -> IF {"a", "b", "c"} \subseteq DOMAIN h /\ recv = "a"
                       THEN {St(call, recv, recv, [others |-> <<"b", "c">>, order |-> o]) :
                               o \in {<<"ab", "bc", "ac", "ba", "cb", "ca">>, <<"ca", "cb", "ba", "ac", "bc", "ab">>,
                                      <<"bc", "ac", "ab", "cb", "ca", "ba">>}}
                       ELSE {}
    [] call = "eqx" -> IF "b" \in DOMAIN h /\ recv # "b"
                       THEN {St(call, recv, recv, [other |-> "b", order |-> o]) : o \in (IF full THEN {"hjtqe", "jthqe", "thjqe", "qehjt", "eqtjh", "Qehjt", "tQhje"} ELSE {"hjtqe", "qetjh", "Qejht"})}
                       ELSE {}
    [] call = "add_metadata" ->
         UNION {
           LET ids == Ids(t, ax)
               rowA == <<<<"k1", "s", <<"q">>>>>>
               rowB == <<<<"k2", "s", <<"p">>>>, <<"k3", "l", <<"p", "q">>>>>>
               maps == IF ids = <<>> THEN {<<>>}
                       ELSE IF full
                       THEN {<<<<ids[1], rowA>>>>,                                  \* first ID, overwrite k1
                             <<<<ids[Len(ids)], rowB>>, <<"zz", rowA>>>>,           \* last ID + an unknown ID
                             [k \in 1..Len(ids) |-> <<ids[k], rowB>>],             \* every ID
                             <<<<"zz", rowA>>>>,                                    \* only unknown IDs
                             <<<<ids[1], <<>>>>>>,                                  \* an empty row
                             <<<<ids[1], <<<<"k1", "s", <<"">>>>, <<"k2", "i", <<"0">>>>>>>>>>,   \* falsy values
                             [k \in 1..Len(ids) |-> <<ids[k], <<<<"k1", "i", <<"0">>>>, <<"k9", "l", <<>>>>>>>>]}
                       ELSE {<<<<ids[Len(ids)], rowB>>, <<"zz", rowA>>>>}
           IN {St(call, recv, recv, [md |-> m, axis |-> ax]) : m \in maps} : ax \in Axes}
    [] call = "del_metadata" ->
         {St(call, recv, recv, [keys |-> ks, allkeys |-> ak, axis |-> ax]) :
            ks \in (IF full THEN {<<"k1">>, <<"k1", "taxonomy">>, <<"nokey">>, <<"k1", "k2", "k3", "taxonomy">>}
                    ELSE {<<"k1">>}),
            ak \in (IF full THEN BOOLEAN ELSE {FALSE}), ax \in {"sample", "observation", "whole"}}
    [] call = "transform" ->
         UNION {{St(call, recv, res, [f |-> f, axis |-> ax, inplace |-> ip, mdkey |-> "k1", mdval |-> "x",
                                      ids |-> FirstOf(Ids(t, ax))]) :
                   f \in (IF full THEN {"double", "square", "zero_ge2", "sub_min", "times_len", "by_md", "by_id"}
                          ELSE {"zero_ge2", "sub_min"}), ip \in BOOLEAN} : ax \in Axes}
    [] call = "norm" -> {St(call, recv, res, [axis |-> ax, inplace |-> ip, via |-> "method"]) : ax \in Axes, ip \in BOOLEAN}
                        \cup (IF full THEN {St(call, recv, res, [axis |-> ax, inplace |-> FALSE, via |-> "cli"]) : ax \in Axes}
                              ELSE {})
    [] call = "pa" -> {St(call, recv, res, [inplace |-> ip]) : ip \in BOOLEAN}
    [] call = "rankdata" ->
         {St(call, recv, res, [axis |-> ax, inplace |-> ip, method |-> m]) :
            ax \in Axes, ip \in BOOLEAN,
            m \in (IF full THEN {"average", "min", "max", "dense", "ordinal"} ELSE {"average"})}
    [] call = "merge" ->
         IF "b" \notin DOMAIN h \/ recv = "b" THEN {}
         ELSE {St(call, recv, res, [others |-> <<"b">>, sample |-> sm, observation |-> om, smf |-> f[1], omf |-> f[2]]) :
                 sm \in {"union", "intersection"}, om \in {"union", "intersection"},
                 f \in (IF full THEN {<<"default", "default">>, <<"none", "none">>, <<"custom", "custom">>,
                                      <<"none", "default">>, <<"default", "none">>, <<"custom", "none">>}
                        ELSE {<<"default", "default">>})}
              \cup (IF "c" \in DOMAIN h /\ ~AnyMd(<<h[recv], h["b"], h["c"]>>)
                    THEN {St(call, recv, res, [others |-> <<"b", "c">>, sample |-> "union", observation |-> "union",
                                                smf |-> "none", omf |-> "none"])}
                    ELSE {})
    [] call = "concat" ->
         IF "b" \notin DOMAIN h \/ recv = "b" THEN {}
         ELSE {St(call, recv, res, [others |-> o, axis |-> ax, via |-> v]) :
                 o \in ({<<"b">>} \cup (IF "c" \in DOMAIN h THEN {<<"b", "c">>, <<"c", "b">>} ELSE {})
                                 \cup (IF full THEN {<<>>} ELSE {})),
                 ax \in Axes, v \in (IF full THEN {"method", "biom.concat", "single"} ELSE {"method"})}
    [] call = "partition" ->
         {St(call, recv, recv, [f |-> f, axis |-> ax, remove_empty |-> re, ignore_none |-> ig]) :
            f \in (IF full THEN {"by_md", "constant", "injective", "parity", "first_none", "dict_id2grp", "dict_grp2ids",
                                 "int_parity", "empty_text"}
                   ELSE {"parity", "first_none", "int_parity"}),
            ax \in Axes, re \in BOOLEAN, ig \in (IF full THEN BOOLEAN ELSE {TRUE})}
    [] call = "collapse" ->
         {St(call, recv, res, [f |-> f, axis |-> ax, norm |-> nm, min_group_size |-> mg, include_collapsed_metadata |-> ic,
                               one_to_many |-> FALSE, mode |-> "add", groups |-> <<>>, strict |-> FALSE]) :
            f \in (IF full THEN {"by_md", "constant", "injective", "parity", "dict_id2grp"} ELSE {"parity"}),
            ax \in Axes, nm \in BOOLEAN, mg \in (IF full THEN {1, 2} ELSE {1}), ic \in (IF full THEN BOOLEAN ELSE {TRUE})}
         \cup
         UNION {
           LET ids == Ids(t, ax)
               G(k) == CASE k % 4 = 1 -> <<"gA">> [] k % 4 = 2 -> <<"gA", "gB">> [] k % 4 = 3 -> <<"gB", "gB", "gC">> [] OTHER -> <<>>
               H(k) == CASE k % 3 = 1 -> <<"gB", "gA", "gB">> [] k % 3 = 2 -> <<>> [] OTHER -> <<"gC">>
               maps == IF full THEN {[k \in 1..Len(ids) |-> <<ids[k], G(k)>>], [k \in 1..Len(ids) |-> <<ids[k], H(k)>>],
                                     [k \in 1..Len(ids) |-> <<ids[k], <<"gA">>>>]}
                       ELSE {[k \in 1..Len(ids) |-> <<ids[k], G(k)>>]}
           IN {St(call, recv, res, [f |-> "pathways", axis |-> ax, norm |-> FALSE, min_group_size |-> 1,
                                    include_collapsed_metadata |-> TRUE, one_to_many |-> TRUE, mode |-> md,
                                    groups |-> gm, strict |-> FALSE]) : gm \in maps, md \in {"add", "divide"}}
           : ax \in Axes}
    [] call = "subsample" ->
         {x \in {St(call, recv, res, [n |-> n, axis |-> ax, by_id |-> bi, with_replacement |-> wr, seed |-> sd, via |-> v]) :
                   n \in (IF full THEN {1, 2, 3, 5, 9} ELSE {2}), ax \in Axes,
                   bi \in BOOLEAN, wr \in BOOLEAN, sd \in (IF full THEN {0, 1, 7} ELSE {0}),
                   v \in (IF full THEN {"method", "generate_subsamples"} ELSE {"method"})} :
              ~(x.args.by_id /\ x.args.with_replacement)
              /\ (x.args.via = "generate_subsamples" => (~x.args.with_replacement /\ x.args.seed = 0))}
    [] call = "rt_hdf5" ->
         {St(call, recv, res, [compress |-> c, save_via |-> sv, load_via |-> lv, date |-> d]) :
            d \in (IF full THEN {"us", "nous"} ELSE {"us"}), c \in BOOLEAN, sv \in (IF full THEN {"to_hdf5", "save_table", "cli"} ELSE {"to_hdf5"}),
            lv \in (IF full THEN {"load_table", "parse_table", "from_hdf5"} ELSE {"load_table"})}
    [] call = "rt_json" ->
         {St(call, recv, res, [mode |-> md, gz |-> g, load_via |-> lv, date |-> d]) :
            d \in {"us", "nous"}, md \in {"string", "direct_io"}, g \in (IF full THEN BOOLEAN ELSE {FALSE}),
            lv \in (IF full THEN {"load_table", "parse_table_handle", "parse_table_lines", "from_json_dict"}
                    ELSE {"load_table"})}
    [] call = "rt_tsv" ->
         {St(call, recv, res, [header_key |-> "", save_via |-> sv, load_via |-> lv]) :
            sv \in (IF full THEN {"to_tsv", "str", "direct_io", "cli"} ELSE {"to_tsv"}),
            lv \in (IF full THEN {"from_tsv_lines", "from_tsv_handle", "parse_table_handle", "parse_table_lines",
                                  "load_table", "load_table_gz", "cli"} ELSE {"load_table"})}
         \cup
         {St(call, recv, res, [header_key |-> "taxonomy", save_via |-> sv, load_via |-> lv]) :
            sv \in (IF full THEN {"to_tsv", "direct_io", "cli"} ELSE {"to_tsv"}),
            lv \in (IF full THEN {"from_tsv_lines", "from_tsv_handle", "cli"} ELSE {"from_tsv_lines"})}
    [] call = "subset_read" ->
         UNION {
           LET ids == Ids(t, ax)
               subs == IF full THEN ((SubSeqsOf(ids) \cup {Reverse(x) : x \in SubSeqsOf(ids)}) \ {<<>>})
                                      \cup {FirstOf(ids) \o <<"zz">>}
                                      \cup (IF ids = <<>> THEN {} ELSE {<<ids[Len(ids)] \o "~x">>, RestOf(ids) \o <<ids[1] \o "~0">>})
                       ELSE ({FirstOf(ids), Reverse(RestOf(ids))}
                             \cup (IF Len(ids) >= 9 THEN {<<ids[2], ids[9]>>, <<ids[9], ids[3], ids[1]>>} ELSE {})
                             \cup (IF Len(ids) >= 12 THEN {<<ids[3], ids[11]>>, <<ids[12], ids[2], ids[11]>>,
                                                           <<ids[1], ids[2], ids[3], ids[10], ids[11], ids[12]>>}
                                   ELSE {})) \ {<<>>}
           IN {St(call, recv, res, [variant |-> v, fmt |-> IF v \in {"parse_table_json", "parse_table_json_lines", "cli_subset_json"}
                                                            THEN "json" ELSE "hdf5",
                                    ids |-> s, axis |-> ax]) :
                 v \in (IF full THEN {"from_hdf5", "from_hdf5_nomd", "parse_table_hdf5", "parse_table_json",
                                      "parse_table_json_lines", "cli_subset_hdf5", "cli_subset_json"}
                        ELSE {"from_hdf5", "parse_table_json", "cli_subset_json"}),
                 s \in subs} : ax \in Axes}
    [] call = "summary" ->
         LET SA(kind, ax, bin, f, n, m, obsv, qual) ==
               [kind |-> kind, axis |-> ax, binary |-> bin, f |-> f, n |-> n, m |-> m, observations |-> obsv,
                qualitative |-> qual]
         IN {St(call, recv, recv, SA(k, ax, b, "add", 1, 1, FALSE, FALSE)) :
               k \in {"sum", "min", "max", "nonzero_counts"}, ax \in {"sample", "observation", "whole"}, b \in BOOLEAN}
            \cup {St(call, recv, recv, SA("reduce", ax, FALSE, f, 1, 1, FALSE, FALSE)) : ax \in Axes, f \in {"add", "max"}}
            \cup {St(call, recv, recv, SA("stats", "sample", b, "add", 1, 1, FALSE, FALSE)) : b \in BOOLEAN}
            \cup {St(call, recv, recv, SA("density", "sample", FALSE, "add", 1, 1, FALSE, FALSE))}
            \cup {St(call, recv, recv, SA("cli_summarize", "sample", FALSE, "add", 1, 1, o, q)) : o \in BOOLEAN, q \in BOOLEAN}
            \cup {St(call, recv, recv, SA(k, ax, FALSE, "add", 1, 1, FALSE, FALSE)) :
                    k \in {"cli_table_ids", "md_dataframe", "cli_export_metadata"}, ax \in Axes}
            \cup {St(call, recv, recv, SA("cli_head", "sample", FALSE, "add", n, m, FALSE, FALSE)) :
                    n \in (IF full THEN {1, 2, 5} ELSE {2}), m \in (IF full THEN {1, 2, 5} ELSE {1})}
            \cup {St(call, recv, recv, SA("to_dataframe", "sample", b, "add", 1, 1, FALSE, FALSE)) : b \in BOOLEAN}
    [] call = "construct" ->
         {St(call, recv, res, [form |-> f]) :
            f \in {"dense_ndarray", "dense_lists", "int_ndarray", "int_lists", "bool_ndarray", "triples", "triples_with_zeros",
                   "coord_dict", "list_of_row_arrays", "list_of_row_dicts", "list_of_sparse_rows", "csr", "csc", "coo",
                   "lil", "dok", "bsr", "csr_unsorted", "csc_unsorted", "csr_zeros", "coo_zeros", "coo_duplicates_zero"}}
    [] call = "construct_bad" ->
         {St(call, recv, res, [kind |-> k, form |-> f]) :
            k \in {"dup_obs_adjacent", "dup_obs_apart", "dup_samp_adjacent", "dup_samp_apart", "too_few_obs", "too_many_obs",
                   "too_few_samp", "too_many_samp", "md_short_obs", "md_long_obs", "md_short_samp", "md_long_samp",
                   "md_string_entry", "md_list_entry", "md_zero_entry", "md_emptystring_entry",
                   "zero_rows_matrix", "zero_cols_matrix"},
            f \in (IF full THEN {"dense_ndarray", "triples", "csr", "list_of_row_arrays"} ELSE {"dense_ndarray"})}
    [] call = "from_adjacency" ->
         {St(call, recv, res, [records |-> r, header |-> hd, input |-> i]) :
            r \in AdjRecordSets, hd \in BOOLEAN, i \in (IF full THEN {"lines", "text", "handle"} ELSE {"lines"})}
    [] call = "parse_uc" ->
         {St(call, recv, res, [records |-> r, comments |-> c, via |-> v]) :
            r \in UcRecordSets, c \in BOOLEAN, v \in (IF full THEN {"api", "cli", "cli_repset"} ELSE {"api"})}
    [] call = "validate" ->
         UNION {
           LET M == IF fmt = "json" THEN JsonMutations ELSE Hdf5Mutations IN
           {St(call, recv, recv, [fmt |-> fmt, muts |-> ms]) :
              ms \in {<<>>} \cup {<<m>> : m \in M} \cup (IF full THEN {<<m1, m2>> : m1 \in M, m2 \in M} ELSE {})}
           : fmt \in {"json", "hdf5"}}
    [] call = "mapfile" ->
         {St(call, recv, recv, [lines |-> ls, opts |-> o]) :
            \* full: files of up to four lines; a deterministic stride sample of the 16 105 line sequences is taken
            \* BEFORE they are multiplied by the options (building every record first took 25 minutes)
            ls \in (IF full THEN Sample(LineSeqs(MapLines("o1", "o2"), 4), 4000, 11) ELSE LineSeqs(MapLines("o1", "o2"), 3)),
            o \in MapOpts}
    [] call = "cli_add_metadata" ->
         UNION {
           LET ids == Ids(t, ax)
               i1 == IF ids = <<>> THEN "zz" ELSE ids[1]
               i2 == IF Len(ids) < 2 THEN "zy" ELSE ids[Len(ids)]
               \* the sc-pipe conversion builds lists of lists, which the HDF5 writer cannot store
               opts == {o \in MapOpts : o.scpipe = <<>>}
               \* header, [comment | blank], rows: the command is exercised on well-formed files mostly
               L == MapLines(i1, i2)
               hdrs == {l \in L : l.kind = "hash" /\ Len(l.fields) > 1}
               rows == {l \in L : l.kind = "row"}
               files == {<<hd, r1>> : hd \in hdrs, r1 \in rows}
                        \cup {<<hd, r1, r2>> : hd \in hdrs, r1 \in rows, r2 \in rows}
                        \cup (IF full THEN {<<hd, x, r1, r2, r3>> : hd \in hdrs, x \in L \ rows, r1 \in rows, r2 \in rows,
                                                                       r3 \in {r \in rows : Len(r.fields) # 3}}
                              ELSE {<<r1, hd, r2>> : hd \in hdrs, r1 \in rows, r2 \in rows})
               \* the long files are sampled before they are multiplied by the options
               fs == IF full THEN Sample(files, 240, 5) ELSE Sample(files, 70, 3)
           IN {St(call, recv, res, [lines |-> ls, opts |-> o, axis |-> ax, other_header |-> oh, json |-> js]) :
                 ls \in fs, o \in opts,
                 oh \in (IF full THEN {<<>>, <<"ID", "zz1">>} ELSE {<<"ID", "zz1">>}), js \in BOOLEAN}
           : ax \in Axes}
    [] OTHER -> {}

(****************************** the machine ******************************)
RECURSIVE NumSum(_)
NumSum(row) == IF row = <<>> THEN 0 ELSE Abs(Head(row)[1]) + NumSum(Tail(row))
StateSalt(h) == LET t == h["a"] IN
  Len(t.obs) * 3 + Len(t.samp) * 5 + (IF Len(t.mat) > 0 THEN NumSum(t.mat[1]) ELSE 0)
                 + (IF Len(t.mat) > 1 THEN 7 * NumSum(t.mat[Len(t.mat)]) ELSE 0)

Init == \E i \in InitHeaps : init = i /\ heap = i.heap /\ hist = <<>>

Next ==
  /\ Len(hist) < Depth
  /\ LET ph == Phases[Len(hist) + 1] IN
     /\ ph.recv \in DOMAIN heap
     /\ \E st \in Sample(UNION {StepsFor(call, heap, ph.recv, IF ph.res = "same" THEN ph.recv ELSE ph.res, ph.full) :
                                call \in ph.calls}, ph.pick, ph.salt + StateSalt(heap)) :
          LET ev == ModelEvent(heap, st) IN
            /\ Assert(Holds(ev), <<"model violates clauses", FailedClauses(ev), st>>)
            /\ heap' = ev.post
            /\ hist' = Append(hist, st)
            /\ UNCHANGED init

Spec == Init /\ [][Next]_vars

\* every live table of the model is coherent, after every history
ModelCoherent == \A s \in DOMAIN heap : C05_Coherent(heap[s])

(* The listed properties once more, as properties of the MACHINE (checked by TLC in every generation run, next to   *)
(* the clause-by-clause Assert above): they speak about heap and hist only, not about recorded events.               *)
LastStep == hist'[Len(hist')]
AlwaysInplaceCalls == {"add_metadata", "del_metadata"}
ReadOnlyCalls == {"read", "probe", "eq", "eqx", "eq3", "summary", "validate", "mapfile"}
\* slots a step may write: its result slot; its receiver only when asked to work in place
Writes(st) == {st.res} \cup (IF st.call \in AlwaysInplaceCalls \/ ("inplace" \in DOMAIN st.args /\ st.args.inplace)
                             THEN {st.recv} ELSE {})
\* C07: every table a step does not name as written is exactly what it was
ModelFrame == [][\A s \in DOMAIN heap : s \notin Writes(LastStep) => (s \in DOMAIN heap' /\ heap'[s] = heap[s])]_vars
\* C16 / C05: observing never changes anything
ModelReadsChangeNothing == [][LastStep.call \in ReadOnlyCalls => heap' = heap]_vars
\* tables are never destroyed; the history grows by exactly the step taken
ModelSlotsOnlyGrow == [][DOMAIN heap \subseteq DOMAIN heap' /\ Len(hist') = Len(hist) + 1]_vars
\* C16: content equality is an equivalence on every heap reached
ModelEqIsEquivalence ==
  \A a \in DOMAIN heap : \A b \in DOMAIN heap : \A c \in DOMAIN heap :
     /\ EqContent(heap[a], heap[a])
     /\ EqContent(heap[a], heap[b]) => EqContent(heap[b], heap[a])
     /\ (EqContent(heap[a], heap[b]) /\ EqContent(heap[b], heap[c])) => EqContent(heap[a], heap[c])
\* C05 (shape part) and the value domain: every live table is well shaped over normalised rationals
ModelTypeOK ==
  \A s \in DOMAIN heap :
     LET t == heap[s] IN
     /\ Shaped(t)
     /\ \A i \in 1..Len(t.mat) : \A j \in 1..Len(t.mat[i]) : t.mat[i][j] = Norm(t.mat[i][j])

\* behaviour export: one JSON line per complete behaviour
Emit == (Len(hist) = Depth) =>
          PrintT(ToJson([tag |-> init.tag, init |-> init.heap, builds |-> init.builds, gmd |-> init.gmd, steps |-> hist]))
=============================================================================
