SPECIFICATION Spec
CONSTANTS
  ReqAlphabet <- MCReq
  EnterAlphabet <- MCEnter
  TrigKinds <- MCTrig
  Sites <- MCSites
  Focus <- MCFocus
  Depth <- MCDepth
  MaxNest <- MCNest
  Pick <- MCPick
  Salt <- MCSalt
INVARIANT TypeOK
PROPERTY RefusedChangesNothing
PROPERTY ScopedRestore
CONSTRAINT Emit
CHECK_DEADLOCK FALSE
