-------------------------- MODULE BiomTableProofs --------------------------
(***************************************************************************)
(* Machine-checked (TLAPS) laws of the table operators for tables of ANY   *)
(* size.  The proof system does not read modules with RECURSIVE operators, *)
(* so the definitions involved are restated here word for word;      *)
(* MC_Lemmas checks with TLC (invariant ProofCopiesAgree) that the copies  *)
(* equal the operators of BiomTable on every table of its universe.        *)
(***************************************************************************)
EXTENDS Integers, Sequences, TLAPS

ColP(t, j) == [i \in 1..Len(t.mat) |-> t.mat[i][j]]
ShapedP(t) ==
  /\ Len(t.mat) = Len(t.obs)
  /\ \A i \in 1..Len(t.mat) : Len(t.mat[i]) = Len(t.samp)
  /\ t.omd.has => Len(t.omd.rows) = Len(t.obs)
  /\ t.smd.has => Len(t.smd.rows) = Len(t.samp)
TransposeP(t) ==
  [obs |-> t.samp, samp |-> t.obs,
   mat |-> [j \in 1..Len(t.samp) |-> ColP(t, j)],
   omd |-> t.smd, smd |-> t.omd, type |-> "", tid |-> t.tid]

\* transposing twice restores IDs, metadata and every value (C06, last sentence)
THEOREM TransposeTwice ==
  ASSUME NEW V, NEW t,
         t.obs \in Seq(STRING), t.samp \in Seq(STRING), t.mat \in Seq(Seq(V)), ShapedP(t)
  PROVE  LET u == TransposeP(TransposeP(t)) IN
         /\ u.obs = t.obs /\ u.samp = t.samp /\ u.omd = t.omd /\ u.smd = t.smd /\ u.tid = t.tid
         /\ u.mat = t.mat
<1> DEFINE n == Len(t.obs)
           m == Len(t.samp)
           t1 == TransposeP(t)
           u == TransposeP(t1)
<1>1. t1.obs = t.samp /\ t1.samp = t.obs /\ t1.omd = t.smd /\ t1.smd = t.omd /\ t1.tid = t.tid
      /\ t1.mat = [j \in 1..m |-> [i \in 1..Len(t.mat) |-> t.mat[i][j]]]
  BY DEF TransposeP, ColP
<1>2. Len(t.mat) = n /\ \A i \in 1..n : Len(t.mat[i]) = m
  BY DEF ShapedP
<1>3. Len(t1.mat) = m /\ \A j \in 1..m : t1.mat[j] = [i \in 1..n |-> t.mat[i][j]]
  BY <1>1, <1>2
<1>4. u.mat = [i \in 1..Len(t1.samp) |-> [j \in 1..Len(t1.mat) |-> t1.mat[j][i]]]
  BY DEF TransposeP, ColP
<1>5. u.mat = [i \in 1..n |-> [j \in 1..m |-> t.mat[i][j]]]
  BY <1>1, <1>3, <1>4
<1>6. \A i \in 1..n : t.mat[i] = [j \in 1..m |-> t.mat[i][j]]
  BY <1>2
<1>7. t.mat = [i \in 1..n |-> t.mat[i]]
  BY <1>2
<1>8. u.mat = t.mat
  BY <1>5, <1>6, <1>7
<1>9. u.obs = t.obs /\ u.samp = t.samp /\ u.omd = t.omd /\ u.smd = t.smd /\ u.tid = t.tid
  BY <1>1 DEF TransposeP
<1> QED BY <1>8, <1>9

\* the transpose of a well-shaped table is well shaped (C05 for transpose)
THEOREM TransposeShaped ==
  ASSUME NEW V, NEW t,
         t.obs \in Seq(STRING), t.samp \in Seq(STRING), t.mat \in Seq(Seq(V)), ShapedP(t)
  PROVE  ShapedP(TransposeP(t))
<1> DEFINE t1 == TransposeP(t)
<1>1. t1.obs = t.samp /\ t1.samp = t.obs /\ t1.omd = t.smd /\ t1.smd = t.omd
      /\ t1.mat = [j \in 1..Len(t.samp) |-> [i \in 1..Len(t.mat) |-> t.mat[i][j]]]
  BY DEF TransposeP, ColP
<1>2. Len(t.mat) = Len(t.obs)
  BY DEF ShapedP
<1>3. Len(t1.mat) = Len(t1.obs) /\ \A j \in 1..Len(t1.mat) : Len(t1.mat[j]) = Len(t1.samp)
  BY <1>1, <1>2
<1>4. (t1.omd.has => Len(t1.omd.rows) = Len(t1.obs)) /\ (t1.smd.has => Len(t1.smd.rows) = Len(t1.samp))
  BY <1>1 DEF ShapedP
<1> QED BY <1>3, <1>4 DEF ShapedP

\* ---- permutations: IdxP, PickP, IsInjP restate Idx, Pick, IsInj of BiomTable

IdxP(seq, e) == IF \E k \in 1..Len(seq) : seq[k] = e THEN CHOOSE k \in 1..Len(seq) : seq[k] = e ELSE 0
PickP(s, ix) == [k \in 1..Len(ix) |-> s[ix[k]]]
IsInjP(s) == \A i, j \in 1..Len(s) : s[i] = s[j] => i = j
RangeP(s) == {s[k] : k \in 1..Len(s)}

LEMMA IdxOfMember ==
  ASSUME NEW S, NEW s \in Seq(S), NEW e \in RangeP(s)
  PROVE  IdxP(s, e) \in 1..Len(s) /\ s[IdxP(s, e)] = e
<1>1. \E k \in 1..Len(s) : s[k] = e
  BY DEF RangeP
<1>2. IdxP(s, e) = CHOOSE k \in 1..Len(s) : s[k] = e
  BY <1>1 DEF IdxP
<1> QED BY <1>1, <1>2

LEMMA IdxOfOwnElement ==
  ASSUME NEW S, NEW s \in Seq(S), IsInjP(s), NEW k \in 1..Len(s)
  PROVE  IdxP(s, s[k]) = k
<1>1. s[k] \in RangeP(s)
  BY DEF RangeP
<1>2. IdxP(s, s[k]) \in 1..Len(s) /\ s[IdxP(s, s[k])] = s[k]
  BY <1>1, IdxOfMember
<1> QED BY <1>2 DEF IsInjP

\* re-indexing by a permutation (given as the sequence of IDs in the new order) and then by the original order
\* restores any sequence attached to the axis
THEOREM PermutationThenInverse ==
  ASSUME NEW S, NEW ids \in Seq(S), NEW order \in Seq(S), Len(order) = Len(ids),
         IsInjP(ids), IsInjP(order), RangeP(order) = RangeP(ids),
         NEW T, NEW X \in Seq(T), Len(X) = Len(ids)
  PROVE  LET p == [k \in 1..Len(order) |-> IdxP(ids, order[k])]
             q == [k \in 1..Len(ids) |-> IdxP(PickP(ids, p), ids[k])]
         IN /\ PickP(ids, p) = order
            /\ PickP(PickP(X, p), q) = X
<1> DEFINE n == Len(ids)
           p == [k \in 1..Len(order) |-> IdxP(ids, order[k])]
           q == [k \in 1..Len(ids) |-> IdxP(PickP(ids, p), ids[k])]
<1>1. \A k \in 1..n : p[k] \in 1..n /\ ids[p[k]] = order[k]
  <2> TAKE k \in 1..n
  <2>1. order[k] \in RangeP(ids)
    BY DEF RangeP
  <2> QED BY <2>1, IdxOfMember
<1>2. Len(p) = n /\ p \in Seq(1..n)
  BY <1>1
<1>3. PickP(ids, p) = order
  <2>1. PickP(ids, p) = [k \in 1..n |-> ids[p[k]]]
    BY <1>2 DEF PickP
  <2>2. order = [k \in 1..n |-> order[k]]
    OBVIOUS
  <2> QED BY <2>1, <2>2, <1>1
<1>4. \A k \in 1..n : q[k] \in 1..n /\ order[q[k]] = ids[k]
  <2> TAKE k \in 1..n
  <2>1. ids[k] \in RangeP(order)
    BY DEF RangeP
  <2>2. IdxP(order, ids[k]) \in 1..Len(order) /\ order[IdxP(order, ids[k])] = ids[k]
    BY <2>1, IdxOfMember
  <2> QED BY <2>2, <1>3
<1>5. \A k \in 1..n : p[q[k]] = k
  <2> TAKE k \in 1..n
  <2>1. p[q[k]] = IdxP(ids, order[q[k]])
    BY <1>4
  <2>2. order[q[k]] = ids[k]
    BY <1>4
  <2> QED BY <2>1, <2>2, IdxOfOwnElement
<1>6. PickP(PickP(X, p), q) = [k \in 1..n |-> X[p[q[k]]]]
  <2>1. Len(q) = n
    OBVIOUS
  <2>2. PickP(X, p) = [k \in 1..n |-> X[p[k]]]
    BY <1>2 DEF PickP
  <2>3. \A k \in 1..n : PickP(X, p)[q[k]] = X[p[q[k]]]
    BY <2>2, <1>4
  <2> QED BY <2>1, <2>3 DEF PickP
<1>7. X = [k \in 1..n |-> X[k]]
  OBVIOUS
<1> QED BY <1>3, <1>5, <1>6, <1>7

\* ---- the same for a whole table, observation axis (restated TakeObs / MdPick / SortOrder of BiomTable)
NoMdP == [has |-> FALSE, rows |-> <<>>]
MdPickP(md, ix) == IF md.has THEN [has |-> TRUE, rows |-> PickP(md.rows, ix)] ELSE NoMdP
TakeObsP(t, ix) == [t EXCEPT !.obs = PickP(t.obs, ix), !.mat = PickP(t.mat, ix), !.omd = MdPickP(t.omd, ix)]
SortObsP(t, order) == TakeObsP(t, [k \in 1..Len(order) |-> IdxP(t.obs, order[k])])
MdT(R) == [has : BOOLEAN, rows : Seq(R)]
TableT(S, V, R) == [obs : Seq(S), samp : Seq(S), mat : Seq(Seq(V)), omd : MdT(R), smd : MdT(R), type : STRING, tid : STRING]
\* metadata in the normal form of the model: absent metadata carries no rows
MdNormal(md) == md.has \/ md = NoMdP

THEOREM SortThenSortBack ==
  ASSUME NEW S, NEW V, NEW R, NEW t \in TableT(S, V, R), NEW order \in Seq(S),
         Len(t.mat) = Len(t.obs), t.omd.has => Len(t.omd.rows) = Len(t.obs), MdNormal(t.omd),
         Len(order) = Len(t.obs), IsInjP(t.obs), IsInjP(order), RangeP(order) = RangeP(t.obs)
  PROVE  SortObsP(SortObsP(t, order), t.obs) = t
<1> DEFINE p == [k \in 1..Len(order) |-> IdxP(t.obs, order[k])]
           t1 == SortObsP(t, order)
           q == [k \in 1..Len(t.obs) |-> IdxP(t1.obs, t.obs[k])]
<1>1. t1 = [t EXCEPT !.obs = PickP(t.obs, p), !.mat = PickP(t.mat, p), !.omd = MdPickP(t.omd, p)]
  BY DEF SortObsP, TakeObsP
<1>2. t1.obs = PickP(t.obs, p) /\ t1.mat = PickP(t.mat, p) /\ t1.omd = MdPickP(t.omd, p)
      /\ t1.samp = t.samp /\ t1.smd = t.smd /\ t1.type = t.type /\ t1.tid = t.tid
  BY <1>1 DEF TableT
<1>3. PickP(t.obs, p) = order /\ PickP(PickP(t.obs, p), q) = t.obs
  <2>1. t.obs \in Seq(S) /\ Len(t.obs) = Len(t.obs)
    BY DEF TableT
  <2> QED BY <2>1, <1>2, PermutationThenInverse
<1>4. PickP(PickP(t.mat, p), q) = t.mat
  <2>1. t.mat \in Seq(Seq(V)) /\ t.obs \in Seq(S)
    BY DEF TableT
  <2> QED BY <2>1, <1>2, PermutationThenInverse
<1>5. MdPickP(MdPickP(t.omd, p), q) = t.omd
  <2>1. CASE t.omd.has
    <3>1. t.omd.rows \in Seq(R) /\ Len(t.omd.rows) = Len(t.obs) /\ t.obs \in Seq(S)
      BY <2>1 DEF TableT, MdT
    <3>2. PickP(PickP(t.omd.rows, p), q) = t.omd.rows
      BY <3>1, <1>2, PermutationThenInverse
    <3>3. MdPickP(t.omd, p) = [has |-> TRUE, rows |-> PickP(t.omd.rows, p)]
      BY <2>1 DEF MdPickP
    <3>4. MdPickP(MdPickP(t.omd, p), q) = [has |-> TRUE, rows |-> PickP(PickP(t.omd.rows, p), q)]
      BY <3>3 DEF MdPickP
    <3>5. t.omd = [has |-> TRUE, rows |-> t.omd.rows]
      BY <2>1 DEF TableT, MdT
    <3> QED BY <3>2, <3>4, <3>5
  <2>2. CASE ~t.omd.has
    <3>1. MdPickP(t.omd, p) = NoMdP
      BY <2>2 DEF MdPickP
    <3>2. MdPickP(NoMdP, q) = NoMdP
      BY DEF MdPickP, NoMdP
    <3> QED BY <3>1, <3>2, <2>2 DEF MdNormal
  <2> QED BY <2>1, <2>2
<1>6. SortObsP(t1, t.obs) = [t1 EXCEPT !.obs = PickP(t1.obs, q), !.mat = PickP(t1.mat, q), !.omd = MdPickP(t1.omd, q)]
  BY DEF SortObsP, TakeObsP
<1>7. SortObsP(t1, t.obs) = [t1 EXCEPT !.obs = t.obs, !.mat = t.mat, !.omd = t.omd]
  BY <1>2, <1>3, <1>4, <1>5, <1>6
<1>8. [t1 EXCEPT !.obs = t.obs, !.mat = t.mat, !.omd = t.omd] = t
  BY <1>1 DEF TableT
<1> QED BY <1>7, <1>8

\* ---- content equality (C16): SeqSetP, MdSameP, EqContentP restate SeqSet, MdSame, EqContent of BiomProps2
SeqSetP(s) == {s[i] : i \in 1..Len(s)}
MdSameP(a, b) == /\ a.has = b.has /\ Len(a.rows) = Len(b.rows)
                 /\ \A k \in 1..Len(a.rows) : k <= Len(b.rows) => SeqSetP(a.rows[k]) = SeqSetP(b.rows[k])
EqContentP(a, b) ==
  /\ a.type = b.type /\ a.obs = b.obs /\ a.samp = b.samp /\ a.mat = b.mat
  /\ MdSameP(a.omd, b.omd) /\ MdSameP(a.smd, b.smd)

\* content equality (what C16 says == must decide) is an equivalence relation, on tables of any size
THEOREM EqContentIsAnEquivalence ==
  ASSUME NEW R, NEW a, NEW b, NEW c,
         a.omd.rows \in Seq(R), a.smd.rows \in Seq(R), b.omd.rows \in Seq(R), b.smd.rows \in Seq(R),
         c.omd.rows \in Seq(R), c.smd.rows \in Seq(R)
  PROVE  /\ EqContentP(a, a)
         /\ EqContentP(a, b) => EqContentP(b, a)
         /\ (EqContentP(a, b) /\ EqContentP(b, c)) => EqContentP(a, c)
<1>1. ASSUME NEW x, NEW y, NEW z, x.rows \in Seq(R), y.rows \in Seq(R), z.rows \in Seq(R)
      PROVE  /\ MdSameP(x, x)
             /\ MdSameP(x, y) => MdSameP(y, x)
             /\ (MdSameP(x, y) /\ MdSameP(y, z)) => MdSameP(x, z)
  <2>1. MdSameP(x, x)
    BY <1>1 DEF MdSameP
  <2>2. MdSameP(x, y) => MdSameP(y, x)
    BY <1>1 DEF MdSameP
  <2>3. (MdSameP(x, y) /\ MdSameP(y, z)) => MdSameP(x, z)
    BY <1>1 DEF MdSameP
  <2> QED BY <2>1, <2>2, <2>3
<1>2. EqContentP(a, a)
  BY <1>1 DEF EqContentP
<1>3. EqContentP(a, b) => EqContentP(b, a)
  BY <1>1 DEF EqContentP
<1>4. (EqContentP(a, b) /\ EqContentP(b, c)) => EqContentP(a, c)
  BY <1>1 DEF EqContentP
<1> QED BY <1>2, <1>3, <1>4

\* ---- metadata rows (C18): RowKeysP, RowUpdateP, RowDeleteP restate RowKeys, RowUpdate, RowDelete of BiomTable
RowKeysP(r) == {e[1] : e \in r}
RowUpdateP(old, new) == {e \in old : e[1] \notin RowKeysP(new)} \cup new
RowDeleteP(old, keys) == {e \in old : e[1] \notin keys}

\* C18: adding metadata sets exactly the given keys (overwriting same-named ones) and keeps every other key;
\* deleting removes exactly the named keys; both are idempotent
THEOREM RowUpdateLaws ==
  ASSUME NEW old, NEW new
  PROVE  /\ new \subseteq RowUpdateP(old, new)
         /\ \A e \in old : e[1] \notin RowKeysP(new) => e \in RowUpdateP(old, new)
         /\ \A e \in RowUpdateP(old, new) : e \in new \/ (e \in old /\ e[1] \notin RowKeysP(new))
         /\ RowKeysP(RowUpdateP(old, new)) = RowKeysP(old) \cup RowKeysP(new)
         /\ RowUpdateP(RowUpdateP(old, new), new) = RowUpdateP(old, new)
  BY DEF RowUpdateP, RowKeysP

THEOREM RowDeleteLaws ==
  ASSUME NEW old, NEW keys
  PROVE  /\ RowKeysP(RowDeleteP(old, keys)) = RowKeysP(old) \ keys
         /\ \A e \in old : e[1] \notin keys => e \in RowDeleteP(old, keys)
         /\ RowDeleteP(old, keys) \subseteq old
         /\ RowDeleteP(RowDeleteP(old, keys), keys) = RowDeleteP(old, keys)
  BY DEF RowDeleteP, RowKeysP
=============================================================================
