-------------------------- MODULE BiomTableProofs --------------------------
(***************************************************************************)
(* Machine-checked (TLAPS) laws of the table operators for tables of ANY   *)
(* size.  The proof system does not read modules with RECURSIVE operators, *)
(* so the three definitions involved are restated here word for word;      *)
(* MC_Lemmas checks with TLC (invariant ProofCopiesAgree) that the copies  *)
(* equal the operators of BiomTable on every table of its universe.        *)
(***************************************************************************)
EXTENDS Integers, Sequences, TLAPS

ColP(t, j) == [i \in 1..Len(t.mat) |-> t.mat[i][j]]
ShapedP(t) ==
  /\ Len(t.mat) = Len(t.obs)
  /\ \A i \in 1..Len(t.mat) : Len(t.mat[i]) = Len(t.samp)
  /\ t.omd.has => Len(t.omd.rows) = Len(t.obs)
  /\ t.smd.has => Len(t.smd.rows) = Len(t.samp)
TransposeP(t) ==
  [obs |-> t.samp, samp |-> t.obs,
   mat |-> [j \in 1..Len(t.samp) |-> ColP(t, j)],
   omd |-> t.smd, smd |-> t.omd, type |-> "", tid |-> t.tid]

\* transposing twice restores IDs, metadata and every value (C06, last sentence)
THEOREM TransposeTwice ==
  ASSUME NEW V, NEW t,
         t.obs \in Seq(STRING), t.samp \in Seq(STRING), t.mat \in Seq(Seq(V)), ShapedP(t)
  PROVE  LET u == TransposeP(TransposeP(t)) IN
         /\ u.obs = t.obs /\ u.samp = t.samp /\ u.omd = t.omd /\ u.smd = t.smd /\ u.tid = t.tid
         /\ u.mat = t.mat
<1> DEFINE n == Len(t.obs)
           m == Len(t.samp)
           t1 == TransposeP(t)
           u == TransposeP(t1)
<1>1. t1.obs = t.samp /\ t1.samp = t.obs /\ t1.omd = t.smd /\ t1.smd = t.omd /\ t1.tid = t.tid
      /\ t1.mat = [j \in 1..m |-> [i \in 1..Len(t.mat) |-> t.mat[i][j]]]
  BY DEF TransposeP, ColP
<1>2. Len(t.mat) = n /\ \A i \in 1..n : Len(t.mat[i]) = m
  BY DEF ShapedP
<1>3. Len(t1.mat) = m /\ \A j \in 1..m : t1.mat[j] = [i \in 1..n |-> t.mat[i][j]]
  BY <1>1, <1>2
<1>4. u.mat = [i \in 1..Len(t1.samp) |-> [j \in 1..Len(t1.mat) |-> t1.mat[j][i]]]
  BY DEF TransposeP, ColP
<1>5. u.mat = [i \in 1..n |-> [j \in 1..m |-> t.mat[i][j]]]
  BY <1>1, <1>3, <1>4
<1>6. \A i \in 1..n : t.mat[i] = [j \in 1..m |-> t.mat[i][j]]
  BY <1>2
<1>7. t.mat = [i \in 1..n |-> t.mat[i]]
  BY <1>2
<1>8. u.mat = t.mat
  BY <1>5, <1>6, <1>7
<1>9. u.obs = t.obs /\ u.samp = t.samp /\ u.omd = t.omd /\ u.smd = t.smd /\ u.tid = t.tid
  BY <1>1 DEF TransposeP
<1> QED BY <1>8, <1>9

\* the transpose of a well-shaped table is well shaped (C05 for transpose)
THEOREM TransposeShaped ==
  ASSUME NEW V, NEW t,
         t.obs \in Seq(STRING), t.samp \in Seq(STRING), t.mat \in Seq(Seq(V)), ShapedP(t)
  PROVE  ShapedP(TransposeP(t))
<1> DEFINE t1 == TransposeP(t)
<1>1. t1.obs = t.samp /\ t1.samp = t.obs /\ t1.omd = t.smd /\ t1.smd = t.omd
      /\ t1.mat = [j \in 1..Len(t.samp) |-> [i \in 1..Len(t.mat) |-> t.mat[i][j]]]
  BY DEF TransposeP, ColP
<1>2. Len(t.mat) = Len(t.obs)
  BY DEF ShapedP
<1>3. Len(t1.mat) = Len(t1.obs) /\ \A j \in 1..Len(t1.mat) : Len(t1.mat[j]) = Len(t1.samp)
  BY <1>1, <1>2
<1>4. (t1.omd.has => Len(t1.omd.rows) = Len(t1.obs)) /\ (t1.smd.has => Len(t1.smd.rows) = Len(t1.samp))
  BY <1>1 DEF ShapedP
<1> QED BY <1>3, <1>4 DEF ShapedP
=============================================================================
