---------------------------- MODULE BiomTrace ----------------------------
(***************************************************************************)
(* The judge.  Reads a batch of traces recorded from the implementation   *)
(* (one JSON object per line: [id, events]) and steps through every trace,*)
(* evaluating every clause of BiomProps at every event.  Verdicts are     *)
(* total: a false clause is recorded by name and checking continues, so   *)
(* one early failure never hides the rest of a trace.                     *)
(*                                                                         *)
(*   <<"FAIL", trace id, event number, clause name, call>>                 *)
(*   <<"DONE", trace id, events consumed, clauses evaluated, clause names>>*)
(* A trace for which no DONE line with the right event count appears is a *)
(* machinery failure, never a pass.                                        *)
(***************************************************************************)
EXTENDS BiomDispatch, Json, IOUtils, TLCExt

Traces == ndJsonDeserialize(IOEnv.TRACE_FILE)

VARIABLES tid, l, viol, seen, cnt
vars == <<tid, l, viol, seen, cnt>>

Init == /\ tid \in 1..Len(Traces)
        /\ l = 1 /\ viol = {} /\ seen = {} /\ cnt = 0

Events(t) == Traces[t].events

Step ==
  /\ l <= Len(Events(tid))
  /\ LET ev == Events(tid)[l]
         c  == Dispatch(ev) @@
               [TRACE_continuity |-> l > 1 => ev.pre = Events(tid)[l - 1].post]
     IN /\ viol' = viol \cup {<<l, k, ev.call>> : k \in {x \in DOMAIN c : ~c[x]}}
        /\ seen' = seen \cup DOMAIN c
        /\ cnt'  = cnt + Cardinality(DOMAIN c)
  /\ l' = l + 1
  /\ UNCHANGED tid

Spec == Init /\ [][Step]_vars

Report ==
  (l = Len(Events(tid)) + 1) =>
     /\ \A v \in viol : PrintT(ToJson([k |-> "FAIL", id |-> Traces[tid].id, l |-> v[1],
                                         clause |-> v[2], call |-> v[3]]))
     /\ PrintT(ToJson([k |-> "DONE", id |-> Traces[tid].id, n |-> l - 1, cnt |-> cnt, seen |-> seen]))
=============================================================================
