------------------------------ MODULE MC_Gen ------------------------------
(* Behaviour-export instance of BiomModel.  The phase list comes from the   *)
(* environment (GEN_PHASES, JSON) so that one module serves every family.   *)
EXTENDS BiomModel, MC_Tables, IOUtils

H1(t, b, tag) == [heap |-> [a |-> Fresh(t)], builds |-> [a |-> b], tag |-> tag, gmd |-> <<>>]
H2(t, u, b, tag) == [heap |-> [a |-> Fresh(t), b |-> Fresh(u)], builds |-> [a |-> b, b |-> "dense"], tag |-> tag, gmd |-> <<>>]

MCInitHeaps ==
  {H1(T23, "dense", "T23"), H1(T23, "csr_unsorted", "T23u"), H1(T32, "csc", "T32"),
   H1(T33, "csr_zeros", "T33z"), H1(T22, "coo", "T22"),
   H2(T23, T23p, "dense", "T23+p"), H2(T33, T33p, "csr_unsorted", "T33+p"),
   H2(T23, T23same, "csc", "T23+same"), H2(T33, T33halfsame, "dense", "T33+halfsame")}

H2b(t, u, b1, b2, tag) == [heap |-> [a |-> Fresh(t), b |-> Fresh(u)], builds |-> [a |-> b1, b |-> b2], tag |-> tag, gmd |-> <<>>]
\* pairs for equality: equal content through different constructions, and single differences
EqHeaps ==
  {H2b(T23, T23, "csr_zeros", "dense", "eq:zeros-dense"), H2b(T23, T23, "dense", "csr_zeros", "eq:dense-zeros"),
   H2b(T33, T33, "csr_unsorted", "csc", "eq:unsorted-csc"), H2b(T32, T32, "coo", "lil", "eq:coo-lil"),
   H2b(T33, T33, "csr_zeros", "csr_unsorted", "eq:zeros-unsorted"),
   H2b(T23, T23val, "csr_zeros", "dense", "ne:value"), H2b(T23, T23id, "dense", "csr", "ne:id"),
   H2b(T23, T23ord, "csr_unsorted", "dense", "ne:order"), H2b(T23, T23md, "dense", "csc", "ne:metadata"),
   H2b(T23, T23type, "dense", "dense", "ne:type"), H2b(T23, T23nomd, "csr_zeros", "dense", "ne:nomd"),
   H2b(T23, T23zero, "csr_zeros", "csr_zeros", "ne:zero-vs-value"),
   H2b(T23, T23idext, "dense", "dense", "ne:id-extended"), H2b(T23idext, T23, "dense", "csr", "ne:id-extended-rev"),
   H2b(Z22, Z22, "dense", "csr_zeros", "eq:all-zero"), H2b(F23num, F23num, "csr_unsorted", "dense", "eq:numeric-md")}

H3b(t, u, v, b1, b2, b3, tag) == [heap |-> [a |-> Fresh(t), b |-> Fresh(u), c |-> Fresh(v)],
                                  builds |-> [a |-> b1, b |-> b2, c |-> b3], tag |-> tag, gmd |-> <<>>]
\* triples for transitivity: all equal through three constructions; one or two of the three differ
Eq3Heaps ==
  {H3b(T33, T33, T33, "csr_zeros", "csr_unsorted", "csc", "eq3:all-equal"),
   H3b(T23, T23, T23, "dense", "csr_zeros", "lil", "eq3:all-equal-b"),
   H3b(T23, T23, T23val, "csr_zeros", "dense", "coo", "eq3:c-differs"),
   H3b(T23, T23zero, T23, "csr_zeros", "csr_zeros", "dense", "eq3:b-differs"),
   H3b(T23md, T23, T23, "dense", "csr_unsorted", "csr_zeros", "eq3:a-differs"),
   H3b(T23, T23val, T23id, "dense", "dense", "csc", "eq3:all-differ")}
H3(t, u, v, tag) == [heap |-> [a |-> Fresh(t), b |-> Fresh(u), c |-> Fresh(v)],
                     builds |-> [a |-> "dense", b |-> "csr_unsorted", c |-> "csc"], tag |-> tag, gmd |-> <<>>]
MergeHeaps ==
  {H2b(MA, MBq, "dense", "csr", "mrg:own-obs-shared-samples-permuted"), H2b(MA0, MBq, "csc", "dense", "mrg:own-obs-permuted-other-md"), H2b(MA, MB, "dense", "csr", "mrg:both-md-partial"), H2b(MA0, MB, "csc", "dense", "mrg:other-md-partial"),
   H2b(MA, MBp, "csr_unsorted", "dense", "mrg:permuted"), H2b(MA0, MBp, "dense", "coo", "mrg:nomd-permuted"),
   H2b(MA0, MBs, "dense", "dense", "mrg:other-smd-permuted"), H2b(MA0, MD0, "dense", "dense", "mrg:disjoint"),
   H2b(MA, MDm, "dense", "csr_zeros", "mrg:disjoint-md"), H2b(MA, MN, "csr_zeros", "dense", "mrg:nested"),
   H2b(MN, MA, "dense", "csr_unsorted", "mrg:nested-rev"), H2b(MA0, MA0, "dense", "csc", "mrg:identical"),
   H2b(MAo, MB0, "dense", "dense", "mrg:recv-obs-md-only"), H2b(MAs, MBp, "csr", "dense", "mrg:recv-samp-md-only"),
   H3(MA0, MB0, MC0, "mrg:three"), H3(MD0, MA0, MBp, "mrg:three-b")}
ConcatHeaps ==
  {H2b(MA, MZ, "dense", "csr", "cat:all-zero-operand"), H2b(MZ, MA0, "dense", "dense", "cat:all-zero-first"), H2b(MA0, ME2, "dense", "dense", "cat:untyped-then-typed"), H2b(T33n, MP3, "dense", "csr", "cat:three-cycle-of-observations"), H2b(MA, ME, "dense", "csr_unsorted", "cat:obs-disjoint-permuted"), H2b(MA, MD0, "csc", "dense", "cat:disjoint-both"),
   H2b(MA, MB, "dense", "dense", "cat:overlapping"), H2b(MA, MG, "csr_zeros", "dense", "cat:samp-disjoint-permuted"),
   H2b(MA0, MDm, "dense", "dense", "cat:first-without-md"),
   H3(MA, MF, MC0, "cat:three-partial"), H3(MA0, MD0, MF, "cat:three-b"), H3(MN, ME, MF, "cat:three-c")}
CountHeaps ==
  {H1(CT34, "dense", "CT34"), H1(CT34, "csc", "CT34csc"), H1(CT23, "csr_unsorted", "CT23u"),
   H1(CT23, "csr_zeros", "CT23z"), H1(T22, "coo", "T22"), H1(T32, "dense", "T32")}
HG(t, b, tag, g) == [heap |-> [a |-> Fresh(t)], builds |-> [a |-> b], tag |-> tag, gmd |-> g]
FileHeaps ==
  {H1(F23mix, "dense", "F23mix"), H1(F23cancel, "csr", "F23cancel"), H1(F23lead0, "dense", "F23lead0"), H1(F23num, "dense", "F23num"), H1(F23tax, "csr_unsorted", "F23tax"), H1(F11, "dense", "F11"),
   H1(F13, "csc", "F13"), H1(F31, "coo", "F31"), H1(F33dense, "csr_unsorted", "F33dense"),
   H1(T23, "csr_zeros", "T23z"), H1(T33, "csr_zeros", "T33z"), H1(T32, "csc", "T32"), H1(T22, "lil", "T22"),
   H1(F24frac, "csr_zeros", "F24frac"), H1(F22zero, "dense", "F22zero"), H1(F33part, "dense", "F33part"), H1(F22e, "dense", "F22e"),
   HG(F33dense, "dense", "F33gmd", <<<<"observation", "phylogeny", "newick", "((o1,o2),o3);">>,
                                     <<"sample", "graph", "txt", "s1-s2; s2-s3">>>>),
   HG(F23tax, "csc", "F23gmd", <<<<"observation", "tree", "newick", "(o1,o2);">>>>),
   HG(F33dense, "csr", "F33gmd2", <<<<"observation", "phylogeny", "newick", "((o1,o2),o3);">>,
                                     <<"observation", "second", "txt", "another entry">>,
                                     <<"sample", "g1", "txt", "x">>, <<"sample", "g2", "txt", "y">>>>)}
WideHeaps == {H1(W2x10, "dense", "W2x10"), H1(W2x10, "csc", "W2x10c"), H1(W10x2, "dense", "W10x2"),
              H1(W2x12, "dense", "W2x12"), H1(W12x2, "dense", "W12x2")}
JsonHeaps == FileHeaps \cup {H1(F23json, "dense", "F23json"), H1(F23odd, "csr_unsorted", "F23odd")}
SumHeaps ==
  {H1(F23ord, "dense", "F23ord"), H1(F23neg, "dense", "F23neg"), H1(F23neg, "csr_zeros", "F23negz"), H1(F23cancel, "csc", "F23cancel"), H1(CT34, "dense", "CT34"), H1(CT34, "csr_zeros", "CT34z"), H1(CT23, "csr_unsorted", "CT23u"), H1(CT23, "csc", "CT23c"),
   H1(F23num, "dense", "F23num"), H1(F33dense, "coo", "F33dense"), H1(T33, "csr_zeros", "T33z"), H1(T23, "lil", "T23"),
   H1(F31, "dense", "F31"), H1(F13, "csr_zeros", "F13z"), H1(F24frac, "dense", "F24frac")}
CtorHeaps ==
  {H1(TZc, "dense", "TZc"), H1(TZr, "dense", "TZr"), H1(T23, "dense", "T23"), H1(T32, "dense", "T32"), H1(T33, "dense", "T33"), H1(T22, "dense", "T22"), H1(F11, "dense", "F11"),
   H1(F13, "dense", "F13"), H1(F31, "dense", "F31"), H1(F24frac, "dense", "F24frac"), H1(CT34, "dense", "CT34"),
   H1(F23num, "dense", "F23num"), H1(T23zero, "dense", "T23zero")}
ValHeaps ==
  {H1(F23lead0, "dense", "F23lead0"), H1(F23num, "dense", "F23num"), H1(F23tax, "csr_unsorted", "F23tax"), H1(T23, "csr_zeros", "T23z"),
   H1(T33, "csc", "T33"), H1(F33dense, "dense", "F33dense"), H1(F13, "dense", "F13"), H1(F24frac, "coo", "F24frac")}
Len4Heaps == {H2(SQ33, SQ33q, "dense", "SQ33+q"), H2(SQ33, SQ33p, "dense", "SQ33+p"), H2(SQ33, SQ33p, "csr_unsorted", "SQ33u+p"), H1(T44, "csr_unsorted", "T44u"), H1(T44, "csc", "T44c"), H2(T44, T44p, "dense", "T44+p")}
HeapSets == [len4 |-> Len4Heaps, wide |-> WideHeaps, one |-> {H1(T22, "dense", "T22")}, pairs |-> MergeHeaps \cup ConcatHeaps \cup CountHeaps, val |-> ValHeaps, sum |-> SumHeaps, ctor |-> CtorHeaps, files |-> FileHeaps, json |-> JsonHeaps,std |-> MCInitHeaps, eq |-> EqHeaps, eq3 |-> Eq3Heaps, all |-> MCInitHeaps \cup EqHeaps, mrg |-> MergeHeaps,
             cat |-> ConcatHeaps, cnt |-> CountHeaps, stdcnt |-> MCInitHeaps \cup CountHeaps \cup {H1(F23cancel, "csr", "F23cancel")}]
\* C08's own scope: EVERY matrix of a given shape over a small value alphabet (GEN_UNIV = JSON file
\* [n, m, vals, k, salt]; k > 0 takes a deterministic stride sample of k matrices), with metadata naming the
\* ID on the observation axis, and a hidden layout chosen by the content
UnivCfg == JsonDeserialize(IOEnv.GEN_UNIV)
UnivBuilds == <<"dense", "csr_unsorted", "csc", "csr_zeros", "coo">>
UnivTables ==
  LET n == UnivCfg.n
      m == UnivCfg.m
      oo == SubSeq(<<"o1", "o2", "o3">>, 1, n)
      ss == SubSeq(<<"s1", "s2", "s3">>, 1, m)
      md(ids) == MdRows([k \in 1..Len(ids) |-> <<S1("k1", IF k = 2 THEN "y" ELSE "x")>>])
  IN {Mk(oo, ss, mm, md(oo), NoMd, "OTU table") : mm \in [1..n -> [1..m -> 0..(UnivCfg.vals - 1)]]}
UnivWeight(t) == LET RECURSIVE W(_, _)
                     W(i, j) == IF i > Len(t.obs) THEN 0
                                ELSE IF j > Len(t.samp) THEN W(i + 1, 1)
                                ELSE t.mat[i][j][1] * (i + 2 * j) + W(i, j + 1)
                 IN W(1, 1)
UnivHeaps == {H1(t, UnivBuilds[1 + (UnivWeight(t) % Len(UnivBuilds))], "univ") :
                t \in Sample(UnivTables, UnivCfg.k, UnivCfg.salt)}
\* pairs for merge: EVERY pair of 2 x 2 matrices over the value alphabet, the second on IDs that overlap the
\* first partially (o2,o3 x s2,s3), both with and without metadata by content
UnivPairHeaps ==
  LET mats == [1..2 -> [1..2 -> 0..(UnivCfg.vals - 1)]]
      md(ids, v) == MdRows([k \in 1..Len(ids) |-> <<S1("k1", v)>>])
      A(mm) == Mk(<<"o1", "o2">>, <<"s1", "s2">>, mm, IF mm[1][1] = 0 THEN NoMd ELSE md(<<"o1", "o2">>, "x"), NoMd, "OTU table")
      B(mm) == Mk(<<"o2", "o3">>, <<"s2", "s3">>, mm, IF mm[2][2] = 0 THEN NoMd ELSE md(<<"o2", "o3">>, "y"),
                  IF mm[1][2] = 0 THEN NoMd ELSE md(<<"s2", "s3">>, "p"), "")
      pairs == {<<A(x), B(y)>> : x \in mats, y \in mats}
  IN {H2b(pr[1], pr[2], UnivBuilds[1 + (UnivWeight(pr[1]) % Len(UnivBuilds))],
          UnivBuilds[1 + (UnivWeight(pr[2]) % Len(UnivBuilds))], "univpair") : pr \in Sample(pairs, UnivCfg.k, UnivCfg.salt)}
\* pairs for concat: the second table on disjoint observation IDs and permuted, partly missing sample IDs
UnivCatHeaps ==
  LET mats == [1..2 -> [1..2 -> 0..(UnivCfg.vals - 1)]]
      md(ids, v) == MdRows([k \in 1..Len(ids) |-> <<S1("k1", v)>>])
      A(mm) == Mk(<<"o1", "o2">>, <<"s1", "s2">>, mm, IF mm[1][1] = 0 THEN NoMd ELSE md(<<"o1", "o2">>, "x"), NoMd, "OTU table")
      B(mm) == Mk(<<"o3", "o4">>, <<"s3", "s1">>, mm, IF mm[2][2] = 0 THEN NoMd ELSE md(<<"o3", "o4">>, "y"), NoMd, "")
      pairs == {<<A(x), B(y)>> : x \in mats, y \in mats}
  IN {H2b(pr[1], pr[2], UnivBuilds[1 + (UnivWeight(pr[1]) % Len(UnivBuilds))],
          UnivBuilds[1 + (UnivWeight(pr[2]) % Len(UnivBuilds))], "univcat") : pr \in Sample(pairs, UnivCfg.k, UnivCfg.salt)}
\* pairs for equality: two matrices on the SAME IDs, different hidden layouts: equal iff the matrices are equal
UnivEqHeaps ==
  LET mats == [1..2 -> [1..2 -> 0..(UnivCfg.vals - 1)]]
      A(mm) == Mk(<<"o1", "o2">>, <<"s1", "s2">>, mm, NoMd, NoMd, "OTU table")
      pairs == {<<A(x), A(y)>> : x \in mats, y \in mats}
  IN {H2b(pr[1], pr[2], UnivBuilds[1 + (UnivWeight(pr[1]) % Len(UnivBuilds))],
          UnivBuilds[1 + ((UnivWeight(pr[2]) + 2) % Len(UnivBuilds))], "univeq") : pr \in Sample(pairs, UnivCfg.k, UnivCfg.salt)}
MCHeaps == CASE IOEnv.GEN_HEAPS = "univ" -> UnivHeaps
             [] IOEnv.GEN_HEAPS = "univpair" -> UnivPairHeaps
             [] IOEnv.GEN_HEAPS = "univcat" -> UnivCatHeaps
             [] IOEnv.GEN_HEAPS = "univeq" -> UnivEqHeaps
             [] OTHER -> HeapSets[IOEnv.GEN_HEAPS]

PhaseSpec == JsonDeserialize(IOEnv.GEN_PHASES)
MCPhases == [i \in 1..Len(PhaseSpec) |->
               [calls |-> SeqSet(PhaseSpec[i].calls), full |-> PhaseSpec[i].full, res |-> PhaseSpec[i].res,
                pick |-> PhaseSpec[i].pick, salt |-> PhaseSpec[i].salt, recv |-> PhaseSpec[i].recv]]
RankList == <<"g0", "g1", "gA", "gB", "gC", "g_nomd", "g_o1", "g_o2", "g_o3", "g_o4", "g_p", "g_q", "g_s1", "g_s2", "g_s3",
              "g_s4", "g_x", "g_y", "gc", "n1", "n2", "n3", "n4", "n5", "n6", "o1", "o2", "o3", "o4", "o5", "s1", "s2",
              "s3", "s4", "s5", "s6", "s7", "s8", "s9", "t1", "t2", "t3", "x1", "x2", "x3", "zz">>
MCNatRank == [x \in SeqSet(RankList) |-> CHOOSE k \in 1..Len(RankList) : RankList[k] = x]
=============================================================================
