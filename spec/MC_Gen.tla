------------------------------ MODULE MC_Gen ------------------------------
(* Behaviour-export instance of BiomModel.  The phase list comes from the   *)
(* environment (GEN_PHASES, JSON) so that one module serves every family.   *)
EXTENDS BiomModel, MC_Tables, IOUtils

H1(t, b, tag) == [heap |-> [a |-> Fresh(t)], builds |-> [a |-> b], tag |-> tag]
H2(t, u, b, tag) == [heap |-> [a |-> Fresh(t), b |-> Fresh(u)], builds |-> [a |-> b, b |-> "dense"], tag |-> tag]

MCInitHeaps ==
  {H1(T23, "dense", "T23"), H1(T23, "csr_unsorted", "T23u"), H1(T32, "csc", "T32"),
   H1(T33, "csr_zeros", "T33z"), H1(T22, "coo", "T22"),
   H2(T23, T23p, "dense", "T23+p"), H2(T33, T33p, "csr_unsorted", "T33+p"),
   H2(T23, T23same, "csc", "T23+same"), H2(T33, T33halfsame, "dense", "T33+halfsame")}

H2b(t, u, b1, b2, tag) == [heap |-> [a |-> Fresh(t), b |-> Fresh(u)], builds |-> [a |-> b1, b |-> b2], tag |-> tag]
\* pairs for equality: equal content through different constructions, and single differences
EqHeaps ==
  {H2b(T23, T23, "csr_zeros", "dense", "eq:zeros-dense"), H2b(T23, T23, "dense", "csr_zeros", "eq:dense-zeros"),
   H2b(T33, T33, "csr_unsorted", "csc", "eq:unsorted-csc"), H2b(T32, T32, "coo", "lil", "eq:coo-lil"),
   H2b(T33, T33, "csr_zeros", "csr_unsorted", "eq:zeros-unsorted"),
   H2b(T23, T23val, "csr_zeros", "dense", "ne:value"), H2b(T23, T23id, "dense", "csr", "ne:id"),
   H2b(T23, T23ord, "csr_unsorted", "dense", "ne:order"), H2b(T23, T23md, "dense", "csc", "ne:metadata"),
   H2b(T23, T23type, "dense", "dense", "ne:type"), H2b(T23, T23nomd, "csr_zeros", "dense", "ne:nomd"),
   H2b(T23, T23zero, "csr_zeros", "csr_zeros", "ne:zero-vs-value")}

HeapSets == [std |-> MCInitHeaps, eq |-> EqHeaps, all |-> MCInitHeaps \cup EqHeaps]
MCHeaps == HeapSets[IOEnv.GEN_HEAPS]

PhaseSpec == JsonDeserialize(IOEnv.GEN_PHASES)
MCPhases == [i \in 1..Len(PhaseSpec) |->
               [calls |-> SeqSet(PhaseSpec[i].calls), full |-> PhaseSpec[i].full, res |-> PhaseSpec[i].res,
                pick |-> PhaseSpec[i].pick, salt |-> PhaseSpec[i].salt, recv |-> PhaseSpec[i].recv]]
MCNatRank == [x \in {"o1", "o2", "o3", "o4", "s1", "s2", "s3", "s4", "n1", "n2", "n3", "n4", "n5", "n6", "zz"} |->
                CASE x = "o1" -> 1 [] x = "o2" -> 2 [] x = "o3" -> 3 [] x = "o4" -> 4
                  [] x = "s1" -> 5 [] x = "s2" -> 6 [] x = "s3" -> 7 [] x = "s4" -> 8
                  [] x = "n1" -> 9 [] x = "n2" -> 10 [] x = "n3" -> 11 [] x = "n4" -> 12
                  [] x = "n5" -> 13 [] x = "n6" -> 14 [] OTHER -> 15]
=============================================================================
