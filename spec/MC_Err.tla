------------------------------ MODULE MC_Err ------------------------------
EXTENDS BiomErr, Json, IOUtils

Cfg == JsonDeserialize(IOEnv.ERR_CFG)      \* [depth, nest, pick, salt]

K3 == {"empty", "obsdup", "sampmdsize"}
R6 == Reactions
Single == {<<<<k, r>>>> : k \in K3, r \in R6}
MCReq ==
  Single
  \cup {<<<<"all", r>>>> : r \in R6}
  \cup {<<<<"empty", "raise">>, <<"obsdup", "ignore">>>>, <<<<"obsdup", "warn">>, <<"sampmdsize", "print">>>>}
  \cup {<<<<"bogus", "raise">>>>, <<<<"empty", "explode">>>>, <<<<"all", "explode">>>>,
        <<<<"empty", "raise">>, <<"bogus", "raise">>>>, <<<<"bogus", "raise">>, <<"empty", "raise">>>>,
        <<<<"empty", "warn">>, <<"obsdup", "explode">>>>, <<<<"obsdup", "explode">>, <<"empty", "warn">>>>}
MCEnter ==
  {<<<<k, r>>>> : k \in {"empty", "obsdup"}, r \in {"raise", "ignore", "call", "warn"}}
  \cup {<<<<"all", "ignore">>>>, <<<<"all", "raise">>>>, <<<<"all", "print">>>>,
        <<<<"empty", "raise">>, <<"sampmdsize", "ignore">>>>,
        <<<<"bogus", "raise">>>>, <<<<"all", "explode">>>>, <<<<"empty", "print">>, <<"obsdup", "explode">>>>}
MCTrig == {"empty", "obsdup", "sampdup", "obsmdsize", "sampmdsize"}
MCSites == [k \in Kinds |-> IF k = "empty" THEN {"constructor", "filter_inplace", "filter_copy", "update_ids", "collapse"}
                            ELSE IF k \in {"obsmdsize", "sampmdsize"} THEN {"constructor", "constructor_zero_length_md"}
                            ELSE {"constructor"}]
MCFocus == IF "focus" \in DOMAIN Cfg THEN Cfg.focus ELSE ""
MCDepth == Cfg.depth
MCNest == Cfg.nest
MCPick == Cfg.pick
MCSalt == Cfg.salt

Emit == (Len(hist) = Depth) => PrintT(ToJson([steps |-> hist]))
=============================================================================
