--------------------------- MODULE BiomDispatch ---------------------------
(***************************************************************************)
(* Which clauses apply to which call.  Used identically by the judge       *)
(* (events recorded from the implementation) and by the model checks       *)
(* (events computed by BiomModel), so the model is checked against exactly *)
(* the clause set the implementation is judged by.                         *)
(***************************************************************************)
EXTENDS BiomProps6

CallClauses(ev) ==
  CASE ev.call = "filter" ->
         (IF ev.args.mode = "ids" THEN Clauses_filter_ids(ev) ELSE Clauses_filter_pred(ev))
         @@ InplaceClauses(ev)
    [] ev.call = "remove_empty" -> Clauses_remove_empty(ev) @@ InplaceClauses(ev)
    [] ev.call = "head"         -> Clauses_head(ev) @@ NewTableClauses(ev)
    [] ev.call = "sort_order"   -> Clauses_sort_order(ev) @@ NewTableClauses(ev)
    [] ev.call = "sort"         -> Clauses_sort(ev) @@ NewTableClauses(ev)
    [] ev.call = "transpose"    -> Clauses_transpose(ev) @@ NewTableClauses(ev)
    [] ev.call = "copy"         -> Clauses_copy(ev) @@ NewTableClauses(ev)
    [] ev.call = "update_ids"   -> Clauses_update_ids(ev) @@ InplaceClauses(ev)
    [] ev.call = "align_to"     -> Clauses_align_to(ev) @@ NewTableClauses(ev)
    [] ev.call = "align_df"     -> Clauses_align_df(ev) @@ NewTableClauses(ev)
    [] ev.call = "read"         -> Clauses_read(ev)
    [] ev.call = "probe"        -> Clauses_probe(ev)
    [] ev.call = "eq"           -> Clauses_eq(ev)
    [] ev.call = "eqx"          -> Clauses_eqx(ev)
    [] ev.call = "eq3"          -> Clauses_eq3(ev)
    [] ev.call = "add_metadata" -> Clauses_add_metadata(ev)
    [] ev.call = "del_metadata" -> Clauses_del_metadata(ev)
    [] ev.call = "transform"    -> Clauses_transform(ev) @@ ElementwiseClause(ev) @@ InplaceClauses(ev)
    [] ev.call = "norm"         -> Clauses_norm(ev) @@ InplaceClauses(ev)
    [] ev.call = "pa"           -> Clauses_pa(ev) @@ InplaceClauses(ev)
    [] ev.call = "rankdata"     -> Clauses_rankdata(ev) @@ InplaceClauses(ev)
    [] ev.call = "merge"        -> Clauses_merge(ev)
    [] ev.call = "concat"       -> Clauses_concat(ev)
    [] ev.call = "partition"    -> Clauses_partition(ev)
    [] ev.call = "collapse"     -> IF ev.args.one_to_many THEN Clauses_collapse_otm(ev) ELSE Clauses_collapse(ev)
    [] ev.call = "subsample"    -> Clauses_subsample(ev)
    [] ev.call = "rt_hdf5"      -> Clauses_rt_hdf5(ev)
    [] ev.call = "rt_json"      -> Clauses_rt_json(ev)
    [] ev.call = "rt_tsv"       -> Clauses_rt_tsv(ev)
    [] ev.call = "subset_read"  -> Clauses_subset_read(ev)
    [] ev.call = "summary"      -> Clauses_summary(ev)
    [] ev.call = "construct"    -> Clauses_construct(ev)
    [] ev.call = "construct_bad" -> Clauses_construct_bad(ev)
    [] ev.call = "from_adjacency" -> Clauses_from_adjacency(ev)
    [] ev.call = "parse_uc"     -> Clauses_parse_uc(ev)
    [] ev.call = "validate"     -> Clauses_validate(ev)
    [] ev.call = "mapfile"      -> Clauses_mapfile(ev)
    [] ev.call = "cli_add_metadata" -> Clauses_cli_add_metadata(ev)
    [] OTHER -> [TRACE_unknown_call |-> FALSE]

CallProp(call) ==
  CASE call \in {"filter", "remove_empty", "head", "align_df"} -> "C08"
    [] call \in {"sort_order", "sort", "transpose", "copy", "update_ids", "align_to"} -> "C06"
    [] call = "merge" -> "C09" [] call = "concat" -> "C10" [] call \in {"partition", "collapse"} -> "C11"
    [] call = "subsample" -> "C12" [] call \in {"transform", "norm", "pa", "rankdata"} -> "C13"
    [] call \in {"add_metadata", "del_metadata", "cli_add_metadata", "mapfile"} -> "C18"
    [] call \in {"construct", "construct_bad", "from_adjacency", "parse_uc"} -> "C17"
    [] call = "rt_hdf5" -> "C01" [] call = "rt_json" -> "C02" [] call = "rt_tsv" -> "C03" [] call = "subset_read" -> "C14"
    [] call = "summary" -> "C19" [] call = "validate" -> "C15" [] call \in {"eq", "eqx", "eq3"} -> "C16"
    [] OTHER -> "C05"

\* clauses index tables by position; if some logged table is not even well-shaped they are
\* not evaluated (TLC would raise an error, not answer FALSE) and the event fails C05 instead
AllShaped(h) == \A s \in DOMAIN h : Shaped(h[s])
\* operations documented to return a new table: the frame rule applies whatever the domain of
\* the operation's own property is
NewTableCalls == {"sort", "sort_order", "transpose", "copy", "head", "subsample", "partition", "collapse", "merge",
                  "concat", "align_to", "align_df"}
\* calls whose clauses read the result table ev.post[ev.res] when the call reports success
ResultCalls == (NewTableCalls \ {"partition"}) \cup {"rt_hdf5", "rt_json", "rt_tsv", "subset_read", "construct",
                                                    "from_adjacency", "parse_uc", "cli_add_metadata"}
NeedsResultTable(ev) ==
  ev.out = "ok" /\ (ev.call \in ResultCalls \/ ("inplace" \in DOMAIN ev.args /\ ~ev.args.inplace))
Dispatch(ev) ==
  \* a step whose receiver was never produced (an earlier call of the trace failed, and was judged
  \* there) cannot be executed; it is recorded and skipped
  IF ev.out = "error:missing-receiver" THEN [TRACE_continuity |-> TRUE]
  \* success is reported but no result table was logged: fails the result clause instead of the evaluation
  ELSE IF NeedsResultTable(ev) /\ ev.res \notin DOMAIN ev.post
  THEN ((CallProp(ev.call) \o "_result_is_a_well_shaped_table") :> FALSE)
  ELSE IF AllShaped(ev.pre) /\ AllShaped(ev.post)
  THEN CallClauses(ev) @@ [C05_coherent_after_every_call |-> AllCoherent(ev.post)]
       @@ (IF ev.call \in NewTableCalls THEN [C07_inputs_unchanged |-> FrameRule(ev, {ev.res})] ELSE [TRACE_continuity |-> TRUE])
  \* an ill-shaped table was produced: the call's own clauses cannot be evaluated position by position;
  \* the event fails coherence (C05) and the result clause of the property the call belongs to
  ELSE [C05_coherent_after_every_call |-> FALSE] @@ ((CallProp(ev.call) \o "_result_is_a_well_shaped_table") :> FALSE)

FailedClauses(ev) == LET c == Dispatch(ev) IN {k \in DOMAIN c : ~c[k]}
Holds(ev) == FailedClauses(ev) = {}
=============================================================================
