--------------------------- MODULE BiomErrTrace ---------------------------
(***************************************************************************)
(* Trace validation for the error profile (C20).  Each event of a trace    *)
(* recorded from biom.err is one step of the reference machine BiomErr.    *)
(* The implementation logs the action, its arguments, the outcome and what *)
(* geterr() reports afterwards; it does NOT log the stack of saved         *)
(* profiles: `frames` is a variable of this specification, maintained by   *)
(* BiomErr!Step.  Verdicts are total: a mismatch is recorded by clause     *)
(* name and the reference state is resynchronised with the observed        *)
(* profile so that the rest of the trace is still examined.                *)
(***************************************************************************)
EXTENDS BiomErrCore, Json, IOUtils, TLCExt

Traces == ndJsonDeserialize(IOEnv.TRACE_FILE)

VARIABLES tid, l, ref, viol, seen, cnt
tvars == <<tid, l, ref, viol, seen, cnt>>

AsProfile(p) == [k \in Kinds |-> p[k]]          \* logged JSON object -> function over Kinds

TInit == /\ tid \in 1..Len(Traces)
         /\ l = 1 /\ viol = {} /\ seen = {} /\ cnt = 0
         /\ ref = [profile |-> Default, frames |-> <<>>, cbs |-> NoCbs]

TEvents(t) == Traces[t].events

Clauses(s, e, s2) ==
  LET obsprof == AsProfile(e.prof)
      base == [C20_profile_is_reference_profile |-> obsprof = s2.profile]
  IN CASE e.act = "seterr" ->
            base @@
            [C20_unknown_kind_or_reaction_refused |-> ~ValidReq(e.req) => e.out = "KeyError",
             C20_valid_request_accepted |-> ValidReq(e.req) => e.out = "ok",
             C20_refused_request_leaves_profile_unchanged |-> ~ValidReq(e.req) => obsprof = s.profile,
             C20_seterr_returns_previous_profile |-> e.out = "ok" => AsProfile(e.ret) = s.profile]
       [] e.act = "enter" ->
            base @@
            [C20_unknown_kind_or_reaction_refused |-> ~ValidReq(e.req) => e.out = "KeyError",
             C20_override_in_force_inside_block |-> ValidReq(e.req) => e.out = "ok" /\ obsprof = Apply(s.profile, e.req),
             C20_refused_request_leaves_profile_unchanged |-> ~ValidReq(e.req) => obsprof = s.profile]
       [] e.act = "exit" ->
            base @@ [C20_previous_profile_restored_on_normal_exit |-> obsprof = s2.profile]
       [] e.act = "exit_exc" ->
            base @@ [C20_previous_profile_restored_when_block_raises |-> obsprof = s2.profile,
                     C20_exception_propagates_out_of_block |-> e.out = "propagated"]
       [] e.act = "seterrcall" ->
            base @@ [C20_unknown_kind_or_reaction_refused |-> (e.kind \notin Kinds) => e.out = "KeyError",
                     C20_valid_request_accepted |-> (e.kind \in Kinds) => e.out = "ok"]
       [] e.act = "trigger" ->
            base @@
            [C20_configured_reaction_happens |-> e.react = Expected(s.profile, s.cbs, e.kind),
             C20_callback_gets_offending_table |->
                (s.profile[e.kind] = "call" /\ s.cbs[e.kind] # "none") => e.cb_arg_ok,
             C20_only_the_configured_reaction |-> e.extra = "none"]
       [] e.act = "noerror" ->
            base @@ [C20_no_reaction_without_error |-> e.react = "passed" /\ e.extra = "none"]
       [] OTHER -> base

TStep ==
  /\ l <= Len(TEvents(tid))
  /\ LET e  == TEvents(tid)[l]
         s2 == Step(ref, e)
         c  == Clauses(ref, e, s2)
     IN /\ viol' = viol \cup {<<l, k, e.act>> : k \in {x \in DOMAIN c : ~c[x]}}
        /\ seen' = seen \cup DOMAIN c
        /\ cnt' = cnt + Cardinality(DOMAIN c)
        \* resynchronise with what the implementation reports, keep the inferred frames
        /\ ref' = [s2 EXCEPT !.profile = AsProfile(e.prof)]
  /\ l' = l + 1
  /\ UNCHANGED tid

TSpec == TInit /\ [][TStep]_tvars

Report ==
  (l = Len(TEvents(tid)) + 1) =>
     /\ \A v \in viol : PrintT(ToJson([k |-> "FAIL", id |-> Traces[tid].id, l |-> v[1],
                                         clause |-> v[2], call |-> v[3]]))
     /\ PrintT(ToJson([k |-> "DONE", id |-> Traces[tid].id, n |-> l - 1, cnt |-> cnt, seen |-> seen]))
=============================================================================
