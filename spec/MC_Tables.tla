---------------------------- MODULE MC_Tables ----------------------------
(* Curated start tables for the bounded instances: asymmetric, all-distinct *)
(* values, zeros in asymmetric positions, an all-zero row / column, with    *)
(* and without metadata on each axis.                                       *)
EXTENDS BiomTable

RI(m) == [i \in 1..Len(m) |-> [j \in 1..Len(m[i]) |-> R(m[i][j])]]
S1(k, v) == <<k, "s", <<v>>>>
L1(k, vs) == <<k, "l", vs>>
MdRows(rows) == [has |-> TRUE, rows |-> rows]

Mk(obs, samp, m, omd, smd, type) ==
  [obs |-> obs, samp |-> samp, mat |-> RI(m), omd |-> omd, smd |-> smd, type |-> type, tid |-> ""]

O2 == <<"o1", "o2">>            O3 == <<"o1", "o2", "o3">>
S2 == <<"s1", "s2">>            S3 == <<"s1", "s2", "s3">>

OMD2 == MdRows(<< <<S1("k1", "x"), L1("taxonomy", <<"p", "q">>)>>,
                  <<S1("k1", "y"), L1("taxonomy", <<"p">>)>> >>)
OMD3 == MdRows(<< <<S1("k1", "x")>>, <<S1("k1", "y")>>, <<S1("k1", "x")>> >>)
SMD2 == MdRows(<< <<S1("k1", "y"), S1("k2", "p")>>, <<S1("k1", "x"), S1("k2", "q")>> >>)
SMD3 == MdRows(<< <<S1("k1", "x")>>, <<S1("k1", "x")>>, <<S1("k1", "y")>> >>)

\* 2 x 3, all distinct non-zero except two zeros in asymmetric positions
T23 == Mk(O2, S3, <<<<3, 1, 0>>, <<0, 5, 6>>>>, OMD2, NoMd, "OTU table")
\* 3 x 2 with an all-zero row, metadata on samples only
T32 == Mk(O3, S2, <<<<0, 7>>, <<0, 0>>, <<2, 4>>>>, NoMd, SMD2, "")
\* 3 x 3 with an all-zero column, negative value, metadata on both axes
T33 == Mk(O3, S3, <<<<1, 0, 2>>, <<-3, 0, 4>>, <<5, 0, 0>>>>, OMD3, SMD3, "Pathway table")
\* fully dense 2 x 2 without metadata
T22 == Mk(O2, S2, <<<<1, 2>>, <<3, 4>>>>, NoMd, NoMd, "")
\* a second table with the IDs of T23 in another order (for align_to)
T23p == Mk(<<"o2", "o1">>, <<"s2", "s3", "s1">>, <<<<9, 8, 7>>, <<6, 5, 4>>>>, NoMd, SMD3, "OTU table")
T33p == Mk(<<"o3", "o1", "o2">>, <<"s3", "s2", "s1">>, <<<<1, 1, 1>>, <<2, 2, 2>>, <<0, 0, 3>>>>, NoMd, NoMd, "")
\* single-difference variants of T23 (for equality): one value, one ID, order, one metadata entry, type
T23val  == Mk(O2, S3, <<<<3, 1, 0>>, <<0, 5, 7>>>>, OMD2, NoMd, "OTU table")
T23id   == Mk(<<"o1", "o4">>, S3, <<<<3, 1, 0>>, <<0, 5, 6>>>>, OMD2, NoMd, "OTU table")
T23ord  == Mk(O2, <<"s1", "s3", "s2">>, <<<<3, 0, 1>>, <<0, 6, 5>>>>, OMD2, NoMd, "OTU table")
T23md   == Mk(O2, S3, <<<<3, 1, 0>>, <<0, 5, 6>>>>,
              MdRows(<< <<S1("k1", "x"), L1("taxonomy", <<"p", "q">>)>>,
                        <<S1("k1", "x"), L1("taxonomy", <<"p">>)>> >>), NoMd, "OTU table")
T23type == Mk(O2, S3, <<<<3, 1, 0>>, <<0, 5, 6>>>>, OMD2, NoMd, "Pathway table")
T23nomd == Mk(O2, S3, <<<<3, 1, 0>>, <<0, 5, 6>>>>, NoMd, NoMd, "OTU table")
T23zero == Mk(O2, S3, <<<<3, 1, 0>>, <<0, 0, 6>>>>, OMD2, NoMd, "OTU table")
\* same IDs in the same order as T23 / T33 (align_to with nothing to move)
T23same == Mk(O2, S3, <<<<1, 1, 1>>, <<2, 2, 2>>>>, NoMd, NoMd, "")
T33same == Mk(O3, S3, <<<<9, 8, 7>>, <<6, 5, 4>>, <<3, 2, 1>>>>, NoMd, SMD3, "")
T33halfsame == Mk(O3, <<"s2", "s1", "s3">>, <<<<9, 8, 7>>, <<6, 5, 4>>, <<3, 2, 1>>>>, NoMd, NoMd, "")
\* ---- operands for merge / concat: every overlap pattern, metadata on neither / either / both
OMDb  == MdRows(<< <<S1("k1", "q")>>, <<S1("k1", "p")>> >>)
MA    == Mk(O2, S2, <<<<1, 2>>, <<3, 4>>>>, OMD2, SMD2, "OTU table")
MA0   == Mk(O2, S2, <<<<1, 2>>, <<3, 4>>>>, NoMd, NoMd, "")
MB    == Mk(<<"o2", "o3">>, <<"s2", "s3">>, <<<<5, 6>>, <<7, 8>>>>, OMDb, NoMd, "")          \* partial overlap
MB0   == Mk(<<"o2", "o3">>, <<"s2", "s3">>, <<<<5, 6>>, <<7, 8>>>>, NoMd, NoMd, "")
MBp   == Mk(<<"o2", "o1">>, <<"s2", "s1">>, <<<<10, 20>>, <<30, 40>>>>, NoMd, NoMd, "")       \* same IDs, permuted
MBs   == Mk(<<"o2", "o1">>, <<"s2", "s1">>, <<<<10, 20>>, <<30, 40>>>>, NoMd, SMD2, "")       \* + sample metadata
MD0   == Mk(<<"o3", "o4">>, <<"s3", "s4">>, <<<<5, 0>>, <<0, 6>>>>, NoMd, NoMd, "")            \* disjoint on both axes
MDm   == Mk(<<"o3", "o4">>, <<"s3", "s4">>, <<<<5, 0>>, <<0, 6>>>>, OMDb, SMD2, "")
MAo   == Mk(O2, S2, <<<<1, 2>>, <<3, 4>>>>, OMD2, NoMd, "")       \* metadata on one axis only
MAs   == Mk(O2, S2, <<<<1, 2>>, <<3, 4>>>>, NoMd, SMD2, "")
MN    == Mk(<<"o1">>, <<"s2">>, <<<<7>>>>, NoMd, NoMd, "")                                      \* nested
MC0   == Mk(<<"o4">>, <<"s1", "s4">>, <<<<9, 1>>>>, NoMd, NoMd, "")
ME    == Mk(<<"o3", "o4">>, <<"s2", "s1">>, <<<<5, 6>>, <<7, 0>>>>, OMDb, NoMd, "")            \* disjoint obs, permuted samples
MF    == Mk(<<"o5">>, <<"s1", "s3">>, <<<<2, 9>>>>, NoMd, NoMd, "")
MG    == Mk(<<"o2", "o1">>, <<"s3", "s4">>, <<<<1, 0>>, <<2, 3>>>>, NoMd, SMD2, "")            \* disjoint samples, permuted obs
\* count tables for subsampling / collapsing (non-negative integers, a zero vector, a single entry, totals = n)
CT34  == Mk(O3, <<"s1", "s2", "s3", "s4">>, <<<<2, 0, 1, 0>>, <<0, 0, 3, 0>>, <<1, 0, 1, 5>>>>, OMD3, NoMd, "OTU table")
CT23  == Mk(O2, S3, <<<<2, 1, 0>>, <<1, 1, 3>>>>, OMD2, SMD3, "")
\* ---- tables for the file formats (inside the C01 domain unless noted)
MkT(obs, samp, m, omd, smd, type, tid) == [Mk(obs, samp, m, omd, smd, type) EXCEPT !.tid = tid]
N1(k, kind, v) == <<k, kind, <<v>>>>
OMDnum == MdRows(<< <<N1("cnt", "i", "3"), N1("flag", "b", "true"), N1("w", "f", "2.5")>>,
                    <<N1("cnt", "i", "0"), N1("flag", "b", "false"), N1("w", "f", "-0.125")>> >>)
SMDtxt == MdRows(<< <<S1("k1", "x"), S1("k/2", "p")>>, <<S1("k1", ""), S1("k/2", "q")>>, <<S1("k1", "y"), S1("k/2", "p")>> >>)
OMDtax == MdRows(<< <<L1("taxonomy", <<"p", "q">>), L1("collapsed_ids", <<"o1">>)>>,
                    <<L1("taxonomy", <<"p">>), L1("collapsed_ids", <<"o2", "o3">>)>> >>)
OMDjson == MdRows(<< <<N1("nul", "z", ""), N1("cnt", "i", "3"), <<"nest", "j", <<"[[1, 2], [\"a\"]]">>>>, S1("k1", "x")>>,
                     <<N1("nul", "z", ""), N1("cnt", "i", "4"), <<"nest", "j", <<"[[], [\"b\", \"c\"]]">>>>, S1("k1", "y")>> >>)
F23num  == MkT(O2, S3, <<<<3, 1, 0>>, <<0, 5, 6>>>>, OMDnum, SMDtxt, "OTU table", "tid1")
F23tax  == MkT(O2, S3, <<<<0, 0, 4>>, <<1, 0, 0>>>>, OMDtax, NoMd, "Taxon table", "")
F23json == MkT(O2, S3, <<<<3, 1, 0>>, <<0, 5, 6>>>>, OMDjson, NoMd, "Gene table", "")
\* header strings with quotes and a backslash (the type token TyQ is concretised as  Ty"pe\ x)
F23odd  == MkT(O2, S3, <<<<0, 2, 7>>, <<1, 0, 0>>>>, OMDjson, NoMd, "TyQ", "tidq")
F11     == MkT(<<"o1">>, <<"s1">>, <<<<7>>>>, NoMd, NoMd, "", "")
F13     == MkT(<<"o1">>, S3, <<<<0, 2, 9>>>>, MdRows(<< <<L1("taxonomy", <<"q">>)>> >>), NoMd, "Metabolite table", "")
F31     == MkT(O3, <<"s1">>, <<<<4>>, <<0>>, <<-8>>>>, NoMd, MdRows(<< <<S1("k1", "x")>> >>), "", "tid2")
F33dense == MkT(O3, S3, <<<<1, 2, 3>>, <<4, 5, 6>>, <<7, 8, 9>>>>, OMD3, SMD3, "Function table", "")
F22zero == MkT(O2, S2, <<<<0, 0>>, <<0, 0>>>>, NoMd, NoMd, "", "")
\* only some observations carry the exported category
F33part == MkT(O3, S3, <<<<1, 0, 2>>, <<0, 3, 4>>, <<5, 6, 0>>>>,
               MdRows(<< <<L1("taxonomy", <<"p", "q">>)>>, <<S1("k1", "x")>>, <<L1("taxonomy", <<"q">>)>> >>), NoMd, "", "")
\* a hierarchical list whose last level is the empty text (TSV keeps it; HDF5 cannot: outside C01's domain)
F22e == MkT(O2, S2, <<<<1, 2>>, <<0, 4>>>>, MdRows(<< <<L1("taxonomy", <<"p", "q", "">>)>>, <<L1("taxonomy", <<"p">>)>> >>), NoMd, "", "")
F24frac == [MkT(O2, <<"s1", "s2", "s3", "s4">>, <<<<1, 0, 0, 2>>, <<0, 3, 0, 0>>>>, OMDtax, NoMd, "Ortholog table", "")
            EXCEPT !.mat = <<<<<<1, 2>>, Zero, Zero, <<-3, 4>>>>, <<Zero, <<5, 8>>, Zero, Zero>>>>]
T23idext == Mk(<<"o1", "o2~0">>, S3, <<<<3, 1, 0>>, <<0, 5, 6>>>>, OMD2, NoMd, "OTU table")   \* an ID that extends another
\* round-3 additions: a row whose non-zero values cancel, a leading all-zero row, a vector whose non-zero values
\* are all negative next to a zero, an operand with an observation of its own and the shared samples in another order
F23cancel == MkT(O2, S3, <<<<2, -2, 0>>, <<0, 5, 6>>>>, NoMd, NoMd, "OTU table", "")
F23lead0  == MkT(O2, S3, <<<<0, 0, 0>>, <<1, 0, 2>>>>, NoMd, NoMd, "OTU table", "")
F23neg    == MkT(O2, S3, <<<<-3, 0, -1>>, <<0, 5, 6>>>>, OMD2, NoMd, "OTU table", "")
MBq   == Mk(<<"o2", "o3">>, <<"s2", "s1">>, <<<<5, 6>>, <<7, 8>>>>, OMDb, NoMd, "")
\* round-4 additions
\* one numeric category holding a whole number on the first ID and fractions later
OMDmix == MdRows(<< <<N1("ph", "i", "7")>>, <<N1("ph", "f", "6.5")>> >>)
F23mix == MkT(O2, S3, <<<<3, 1, 0>>, <<0, 5, 6>>>>, OMDmix, NoMd, "OTU table", "")
\* the same labels on both axes (x1..x3), and a partner with both axes permuted
X3 == <<"x1", "x2", "x3">>
SQ33  == Mk(X3, X3, <<<<1, 2, 0>>, <<0, 3, 4>>, <<5, 0, 6>>>>, OMD3, SMD3, "OTU table")
SQ33q == Mk(<<"x3", "x1", "x2">>, X3, <<<<9, 8, 7>>, <<6, 5, 4>>, <<3, 2, 1>>>>, NoMd, NoMd, "")   \* samples = the partner's observations
SQ33p == Mk(<<"x3", "x1", "x2">>, <<"x2", "x3", "x1">>, <<<<9, 8, 7>>, <<6, 5, 4>>, <<3, 2, 1>>>>, NoMd, NoMd, "")
MZ    == Mk(<<"o3", "o4">>, <<"s1", "s2">>, <<<<0, 0>>, <<0, 0>>>>, OMDb, NoMd, "")            \* an operand whose block is all zero
ME2   == Mk(<<"o3", "o4">>, <<"s2", "s1">>, <<<<5, 6>>, <<7, 0>>>>, OMDb, NoMd, "OTU table")    \* a typed operand after an untyped one
T33n  == Mk(O3, S3, <<<<1, 0, 2>>, <<3, 0, 4>>, <<5, 6, 0>>>>, NoMd, NoMd, "")
MP3   == Mk(<<"o2", "o3", "o1">>, <<"s4", "s5">>, <<<<1, 2>>, <<3, 4>>, <<5, 6>>>>, NoMd, NoMd, "")  \* a 3-cycle of the observations
TZc   == Mk(O2, S3, <<<<1, 2, 0>>, <<3, 4, 0>>>>, NoMd, NoMd, "")          \* last column all zero
TZr   == Mk(O2, S2, <<<<1, 2>>, <<0, 0>>>>, NoMd, NoMd, "")                \* last row all zero
Z22   == Mk(O2, S2, <<<<0, 0>>, <<0, 0>>>>, NoMd, NoMd, "OTU table")       \* nothing but zeros
\* the same categories on every ID, listed in a different order
OMDord == MdRows(<< <<S1("k1", "x"), S1("k2", "p")>>, <<S1("k2", "q"), S1("k1", "y")>> >>)
F23ord == MkT(O2, S3, <<<<3, 1, 0>>, <<0, 5, 6>>>>, OMDord, NoMd, "OTU table", "")
\* axes of length 4 (C06: every permutation of an axis up to length 4)
O4 == <<"o1", "o2", "o3", "o4">>     S4 == <<"s1", "s2", "s3", "s4">>
OMD4 == MdRows(<< <<S1("k1", "x")>>, <<S1("k1", "y")>>, <<S1("k1", "x")>>, <<S1("k1", "p")>> >>)
SMD4 == MdRows(<< <<S1("k2", "p")>>, <<S1("k2", "q")>>, <<S1("k2", "x")>>, <<S1("k2", "y")>> >>)
T44  == Mk(O4, S4, <<<<1, 0, 2, 0>>, <<0, 3, 0, 4>>, <<5, 6, 0, 0>>, <<0, 0, 7, 8>>>>, OMD4, SMD4, "OTU table")
T44p == Mk(<<"o3", "o1", "o4", "o2">>, <<"s2", "s4", "s1", "s3">>,
           <<<<1, 2, 3, 4>>, <<5, 6, 7, 8>>, <<9, 1, 2, 3>>, <<4, 5, 6, 7>>>>, NoMd, NoMd, "")
S10 == <<"s1", "s2", "s3", "s4", "s5", "s6", "s7", "s8", "s9", "t1">>
W2x10mat == <<<<1, 0, 2, 0, 3, 0, 4, 0, 5, 6>>, <<0, 7, 0, 8, 0, 9, 0, 1, 2, 3>>>>
W2x10 == MkT(O2, S10, W2x10mat, NoMd, NoMd, "OTU table", "")
\* ten observations (the text slicer renumbers kept rows; positions 8+ matter)
W10x2 == MkT(S10, O2, [j \in 1..10 |-> <<W2x10mat[1][j], W2x10mat[2][j]>>], NoMd, NoMd, "OTU table", "")
\* twelve IDs on the sliced axis: kept positions mix one- and two-digit indices (2 and 10, 11 and 1 ...), which is
\* where an index remapping keyed by text or sorted as text goes wrong
S12 == S10 \o <<"t2", "t3">>
W2x12mat == <<<<1, 0, 2, 0, 3, 0, 4, 0, 5, 6, 7, 0>>, <<0, 7, 0, 8, 0, 9, 0, 1, 2, 3, 0, 4>>>>
W2x12 == MkT(O2, S12, W2x12mat, NoMd, NoMd, "OTU table", "")
W12x2 == MkT(S12, O2, [j \in 1..12 |-> <<W2x12mat[1][j], W2x12mat[2][j]>>], NoMd, NoMd, "OTU table", "")
=============================================================================
