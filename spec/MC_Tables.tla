---------------------------- MODULE MC_Tables ----------------------------
(* Curated start tables for the bounded instances: asymmetric, all-distinct *)
(* values, zeros in asymmetric positions, an all-zero row / column, with    *)
(* and without metadata on each axis.                                       *)
EXTENDS BiomTable

RI(m) == [i \in 1..Len(m) |-> [j \in 1..Len(m[i]) |-> R(m[i][j])]]
S1(k, v) == <<k, "s", <<v>>>>
L1(k, vs) == <<k, "l", vs>>
MdRows(rows) == [has |-> TRUE, rows |-> rows]

Mk(obs, samp, m, omd, smd, type) ==
  [obs |-> obs, samp |-> samp, mat |-> RI(m), omd |-> omd, smd |-> smd, type |-> type, tid |-> ""]

O2 == <<"o1", "o2">>            O3 == <<"o1", "o2", "o3">>
S2 == <<"s1", "s2">>            S3 == <<"s1", "s2", "s3">>

OMD2 == MdRows(<< <<S1("k1", "x"), L1("taxonomy", <<"p", "q">>)>>,
                  <<S1("k1", "y"), L1("taxonomy", <<"p">>)>> >>)
OMD3 == MdRows(<< <<S1("k1", "x")>>, <<S1("k1", "y")>>, <<S1("k1", "x")>> >>)
SMD2 == MdRows(<< <<S1("k1", "y"), S1("k2", "p")>>, <<S1("k1", "x"), S1("k2", "q")>> >>)
SMD3 == MdRows(<< <<S1("k1", "x")>>, <<S1("k1", "x")>>, <<S1("k1", "y")>> >>)

\* 2 x 3, all distinct non-zero except two zeros in asymmetric positions
T23 == Mk(O2, S3, <<<<3, 1, 0>>, <<0, 5, 6>>>>, OMD2, NoMd, "OTU table")
\* 3 x 2 with an all-zero row, metadata on samples only
T32 == Mk(O3, S2, <<<<0, 7>>, <<0, 0>>, <<2, 4>>>>, NoMd, SMD2, "")
\* 3 x 3 with an all-zero column, negative value, metadata on both axes
T33 == Mk(O3, S3, <<<<1, 0, 2>>, <<-3, 0, 4>>, <<5, 0, 0>>>>, OMD3, SMD3, "Pathway table")
\* fully dense 2 x 2 without metadata
T22 == Mk(O2, S2, <<<<1, 2>>, <<3, 4>>>>, NoMd, NoMd, "")
\* a second table with the IDs of T23 in another order (for align_to)
T23p == Mk(<<"o2", "o1">>, <<"s2", "s3", "s1">>, <<<<9, 8, 7>>, <<6, 5, 4>>>>, NoMd, SMD3, "OTU table")
T33p == Mk(<<"o3", "o1", "o2">>, <<"s3", "s2", "s1">>, <<<<1, 1, 1>>, <<2, 2, 2>>, <<0, 0, 3>>>>, NoMd, NoMd, "")
\* single-difference variants of T23 (for equality): one value, one ID, order, one metadata entry, type
T23val  == Mk(O2, S3, <<<<3, 1, 0>>, <<0, 5, 7>>>>, OMD2, NoMd, "OTU table")
T23id   == Mk(<<"o1", "o4">>, S3, <<<<3, 1, 0>>, <<0, 5, 6>>>>, OMD2, NoMd, "OTU table")
T23ord  == Mk(O2, <<"s1", "s3", "s2">>, <<<<3, 0, 1>>, <<0, 6, 5>>>>, OMD2, NoMd, "OTU table")
T23md   == Mk(O2, S3, <<<<3, 1, 0>>, <<0, 5, 6>>>>,
              MdRows(<< <<S1("k1", "x"), L1("taxonomy", <<"p", "q">>)>>,
                        <<S1("k1", "x"), L1("taxonomy", <<"p">>)>> >>), NoMd, "OTU table")
T23type == Mk(O2, S3, <<<<3, 1, 0>>, <<0, 5, 6>>>>, OMD2, NoMd, "Pathway table")
T23nomd == Mk(O2, S3, <<<<3, 1, 0>>, <<0, 5, 6>>>>, NoMd, NoMd, "OTU table")
T23zero == Mk(O2, S3, <<<<3, 1, 0>>, <<0, 0, 6>>>>, OMD2, NoMd, "OTU table")
\* same IDs in the same order as T23 / T33 (align_to with nothing to move)
T23same == Mk(O2, S3, <<<<1, 1, 1>>, <<2, 2, 2>>>>, NoMd, NoMd, "")
T33same == Mk(O3, S3, <<<<9, 8, 7>>, <<6, 5, 4>>, <<3, 2, 1>>>>, NoMd, SMD3, "")
T33halfsame == Mk(O3, <<"s2", "s1", "s3">>, <<<<9, 8, 7>>, <<6, 5, 4>>, <<3, 2, 1>>>>, NoMd, NoMd, "")
=============================================================================
