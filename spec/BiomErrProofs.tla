--------------------------- MODULE BiomErrProofs ---------------------------
(***************************************************************************)
(* Machine-checked (TLAPS) laws of the reference machine of C20, for       *)
(* states of ANY nesting depth (TLC checks the same machine to depth 8).   *)
(***************************************************************************)
EXTENDS BiomErrCore, TLAPS

Profiles == [Kinds -> Reactions]
States == [profile : Profiles, frames : Seq(Profiles), cbs : [Kinds -> STRING]]
Enter(req) == [act |-> "enter", req |-> req]
Exit == [act |-> "exit"]
ExitExc == [act |-> "exit_exc"]

\* a scoped override is undone by leaving the block, normally or by exception, whatever the depth
THEOREM ScopedRestore ==
  ASSUME NEW s \in States, NEW req, ValidReq(req)
  PROVE  /\ Step(Step(s, Enter(req)), Exit) = s
         /\ Step(Step(s, Enter(req)), ExitExc) = s
<1> DEFINE s1 == Step(s, Enter(req))
<1>1. s1 = [s EXCEPT !.frames = Append(s.frames, s.profile), !.profile = Apply(s.profile, req)]
  BY DEF Step, Enter
<1>2. s1.frames = Append(s.frames, s.profile) /\ s1.frames # <<>> /\ s1.cbs = s.cbs
  BY <1>1 DEF States
<1>3. Len(s1.frames) = Len(s.frames) + 1 /\ s1.frames[Len(s1.frames)] = s.profile
      /\ SubSeq(s1.frames, 1, Len(s1.frames) - 1) = s.frames
  BY <1>2 DEF States
<1>4. Step(s1, Exit) = [s1 EXCEPT !.profile = s.profile, !.frames = s.frames]
  BY <1>2, <1>3 DEF Step, Exit
<1>5. Step(s1, ExitExc) = [s1 EXCEPT !.profile = s.profile, !.frames = s.frames]
  BY <1>2, <1>3 DEF Step, ExitExc
<1>6. [s1 EXCEPT !.profile = s.profile, !.frames = s.frames] = s
  BY <1>1 DEF States
<1> QED BY <1>4, <1>5, <1>6

\* ... also when the profile was changed again inside the block (seterr, with any request)
THEOREM SeterrInsideBlockIsUndone ==
  ASSUME NEW s \in States, NEW r1, ValidReq(r1), NEW r2
  PROVE  Step(Step(Step(s, Enter(r1)), [act |-> "seterr", req |-> r2]), Exit) = s
<1> DEFINE s1 == Step(s, Enter(r1))
           s2 == Step(s1, [act |-> "seterr", req |-> r2])
<1>1. s1 = [s EXCEPT !.frames = Append(s.frames, s.profile), !.profile = Apply(s.profile, r1)]
  BY DEF Step, Enter
<1>2. s2.frames = s1.frames /\ s2.cbs = s1.cbs /\ s2 = [s1 EXCEPT !.profile = s2.profile]
  BY <1>1 DEF Step, States
<1>3. s2.frames = Append(s.frames, s.profile) /\ s2.frames # <<>> /\ s2.cbs = s.cbs
  BY <1>1, <1>2 DEF States
<1>4. s2.frames[Len(s2.frames)] = s.profile /\ SubSeq(s2.frames, 1, Len(s2.frames) - 1) = s.frames
  BY <1>3 DEF States
<1>5. Step(s2, Exit) = [s2 EXCEPT !.profile = s.profile, !.frames = s.frames]
  BY <1>3, <1>4 DEF Step, Exit
<1>6. [s2 EXCEPT !.profile = s.profile, !.frames = s.frames] = s
  BY <1>1, <1>2 DEF States
<1> QED BY <1>5, <1>6

\* a valid request applied to a profile is a profile: the machine stays inside its state space
LEMMA ApplyType ==
  ASSUME NEW p \in Profiles, NEW req, ValidReq(req)
  PROVE  Apply(p, req) \in Profiles
<1>1. CASE HasAll(req)
  BY <1>1 DEF Apply, ValidReq, Profiles
<1>2. CASE ~HasAll(req)
  <2>1. ASSUME NEW k \in Kinds, k \in ReqKeys(req) PROVE ReqVal(req, k) \in Reactions
    <3>1. \E i \in 1..Len(req) : req[i][1] = k
      BY <2>1 DEF ReqKeys
    <3>2. PICK j \in 1..Len(req) : j = (CHOOSE i \in 1..Len(req) : req[i][1] = k) /\ req[j][1] = k
      BY <3>1
    <3> QED BY <3>2, <1>2 DEF ReqVal, ValidReq
  <2> QED BY <2>1, <1>2 DEF Apply, Profiles
<1> QED BY <1>1, <1>2

THEOREM EnterStaysInStateSpace ==
  ASSUME NEW s \in States, NEW req
  PROVE  Step(s, Enter(req)) \in States
<1>1. CASE ValidReq(req)
  <2>1. Apply(s.profile, req) \in Profiles
    BY <1>1, ApplyType DEF States
  <2>2. Append(s.frames, s.profile) \in Seq(Profiles)
    BY DEF States
  <2> QED BY <1>1, <2>1, <2>2 DEF Step, Enter, States
<1>2. CASE ~ValidReq(req)
  BY <1>2 DEF Step, Enter
<1> QED BY <1>1, <1>2

\* two nested overrides unwind in order
THEOREM NestedRestore ==
  ASSUME NEW s \in States, NEW r1, ValidReq(r1), NEW r2, ValidReq(r2)
  PROVE  Step(Step(Step(Step(s, Enter(r1)), Enter(r2)), Exit), Exit) = s
  BY ScopedRestore, EnterStaysInStateSpace

\* a refused request changes nothing
THEOREM RefusedChangesNothing ==
  ASSUME NEW s \in States, NEW req, ~ValidReq(req)
  PROVE  Step(s, Enter(req)) = s /\ Step(s, [act |-> "seterr", req |-> req]) = s
  BY DEF Step, Enter
=============================================================================
