---------------------------- MODULE BiomProps6 ----------------------------
(***************************************************************************)
(* Property clauses, part 6: the second sentence of C16 -- "Tables that     *)
(* compare equal export the same IDs, matrix values and metadata in TSV,   *)
(* JSON and HDF5 form, and answer every per-ID and per-cell query          *)
(* identically."                                                            *)
(*                                                                         *)
(* Event `eqx` (receiver a, args.other b).  The driver exports BOTH live   *)
(* tables in the three forms, decodes each export with an independent      *)
(* decoder (text split, json.loads, raw h5py) and asks both tables the     *)
(* same list of queries (every ID of a on each axis, every cell):          *)
(*   obs.eq            : a == b as the library reports it                  *)
(*   obs.exp_a, exp_b  : [tsv  : [ok, obs, samp, mat],                     *)
(*                        json : [ok, obs, samp, mat, omd, smd, type, shape],*)
(*                        hdf5 : [ok, raw, loaded]]                        *)
(*   obs.q_a, q_b      : Seq(STRING), one canonical text per query         *)
(* The clauses apply when the two tables have equal content (which is      *)
(* when they compare equal, by C16_equality_is_content_equality).          *)
(***************************************************************************)
EXTENDS BiomProps5

TsvSame(x, y) == x.ok = y.ok /\ x.obs = y.obs /\ x.samp = y.samp /\ x.mat = y.mat
JsonSame(x, y) ==
  /\ x.ok = y.ok /\ x.obs = y.obs /\ x.samp = y.samp /\ x.mat = y.mat /\ x.type = y.type /\ x.shape = y.shape
  /\ MdSame(x.omd, y.omd) /\ MdSame(x.smd, y.smd)
RawDecodable(r) == ViewShapeOk(r.obs, Len(r.obs.ids)) /\ ViewShapeOk(r.samp, Len(r.samp.ids))
MdNameSet(ax) == {<<ax.md[k].name, ax.md[k].len>> : k \in 1..Len(ax.md)}
RawSame(r, s) ==
  LET n == Len(r.obs.ids)
      m == Len(r.samp.ids)
  IN /\ r.obs.ids = s.obs.ids /\ r.samp.ids = s.samp.ids
     /\ r.attrs.shape = s.attrs.shape /\ r.attrs.nnz = s.attrs.nnz /\ r.attrs.type = s.attrs.type
     /\ MdNameSet(r.obs) = MdNameSet(s.obs) /\ MdNameSet(r.samp) = MdNameSet(s.samp)
     /\ RawDecodable(r) = RawDecodable(s)
     /\ RawDecodable(r) /\ RawDecodable(s) =>
          /\ DecodeCSR(r.obs, n, m) = DecodeCSR(s.obs, n, m)
          /\ DecodeCSC(r.samp, n, m) = DecodeCSC(s.samp, n, m)
H5Same(x, y) == x.ok = y.ok /\ (x.ok /\ y.ok => RawSame(x.raw, y.raw) /\ SameTable(x.loaded, y.loaded))

Clauses_eqx(ev) ==
  LET a == ev.pre[ev.recv]
      b == ev.pre[ev.args.other]
      o == ev.obs
  IN IF IsEmptyTable(a) \/ IsEmptyTable(b) THEN [C16_out_of_domain_empty_table |-> TRUE]
     ELSE IF ~EqContent(a, b)
     THEN [C16_equality_is_content_equality |-> Ok(ev) /\ ~o.eq,
           C16_reads_leave_content_unchanged |-> HeapUnchanged(ev)]
     ELSE [C16_equality_is_content_equality |-> Ok(ev) /\ o.eq,
           C16_equal_tables_export_the_same_tsv  |-> TsvSame(o.exp_a.tsv, o.exp_b.tsv),
           C16_equal_tables_export_the_same_json |-> JsonSame(o.exp_a.json, o.exp_b.json),
           C16_equal_tables_export_the_same_hdf5 |-> H5Same(o.exp_a.hdf5, o.exp_b.hdf5),
           C16_equal_tables_answer_every_query_identically |-> o.q_a = o.q_b,
           C16_exports_are_read_only |-> HeapUnchanged(ev),
           C16_reads_leave_content_unchanged |-> HeapUnchanged(ev)]

\* three tables: obs.ab, obs.bc, obs.ac, obs.ba, obs.cb, obs.ca as the library reports them (in args.order)
Clauses_eq3(ev) ==
  LET a == ev.pre["a"]
      b == ev.pre["b"]
      c == ev.pre["c"]
      o == ev.obs
  IN IF IsEmptyTable(a) \/ IsEmptyTable(b) \/ IsEmptyTable(c) THEN [C16_out_of_domain_empty_table |-> TRUE]
     ELSE [C16_transitive |-> (o.ab /\ o.bc) => o.ac,
           C16_symmetric |-> o.ab = o.ba /\ o.bc = o.cb /\ o.ac = o.ca,
           C16_equality_is_content_equality |->
              Ok(ev) /\ o.ab = EqContent(a, b) /\ o.bc = EqContent(b, c) /\ o.ac = EqContent(a, c),
           C16_reads_leave_content_unchanged |-> HeapUnchanged(ev)]
\* ---------------------------------------------------------------- align_to_dataframe
\* Table.align_to_dataframe(frame, axis): a filter to the IDs shared with the frame's index, followed by
\* the removal of vectors left all-zero; returns the new table and the frame re-indexed by the table's
\* IDs.  The clauses state what C08 says of any filter by an ID collection (only selected IDs, original
\* relative order, vectors and metadata intact) and leave the library free to drop all-zero vectors.
IsSubSeqOf(s, t) == s = SelectSeq(t, LAMBDA x : x \in SeqSet(s))
Clauses_align_df(ev) ==
  LET pre == ev.pre[ev.recv]
      ax  == ev.args.axis
      common == SeqSet(ev.args.index) \cap SeqSet(Ids(pre, ax))
      flt == FilterIds(pre, common, ax, FALSE)
  IN IF Failed(ev)
     THEN IF common = {} \/ IsEmptyTable(pre)
          THEN [C07_inputs_unchanged |-> HeapUnchanged(ev)]
          ELSE [C08_align_df_succeeds |-> FALSE]
     ELSE LET post == ev.post[ev.res] IN
       [C08_align_df_only_shared_ids_in_order |->
            /\ IsSubSeqOf(Ids(post, ax), Ids(flt, ax))
            /\ IsSubSeqOf(Ids(post, Other(ax)), Ids(pre, Other(ax))),
        C08_align_df_dropped_vectors_were_zero |->
            /\ \A id \in SeqSet(Ids(flt, ax)) \ SeqSet(Ids(post, ax)) : VecZero(VecOf(flt, ax, id))
            /\ \A id \in SeqSet(Ids(flt, Other(ax))) \ SeqSet(Ids(post, Other(ax))) :
                  VecZero(VecOf(flt, Other(ax), id)),
        C08_align_df_values_and_metadata_by_id |->
            ValuesById(pre, post) /\ MdById(pre, post, "observation") /\ MdById(pre, post, "sample"),
        C08_type_kept |-> post.type = pre.type,
        C05_align_df_frame_follows_table |-> ev.obs.frame_index = Ids(post, ax)]

=============================================================================
