------------------------------- MODULE TLAPS --------------------------------

(* Backend pragmas. *)


(***************************************************************************)
(* Each of these pragmas can be cited with a BY or a USE.  The pragma that *)
(* is added to the context of an obligation most recently is the one whose *)
(* effects are triggered.                                                  *)
(***************************************************************************)

(***************************************************************************)
(* The following pragmas should be used only as a last resource.  They are *)
(* dependent upon the particular backend provers, and are unlikely to have *)
(* any effect if the set of backend provers changes.  Moreover, they are   *)
(* meaningless to a reader of the proof.                                   *)
(***************************************************************************)


(**************************************************************************)
(* Backend pragma: use the SMT solver for arithmetic.                     *)
(*                                                                        *)
(* This method exists under this name for historical reasons.             *)
(**************************************************************************)

SimpleArithmetic == TRUE (*{ by (prover:"smt3") }*)


(**************************************************************************)
(* Backend pragma: SMT solver                                             *)
(*                                                                        *)
(* This method translates the proof obligation to SMTLIB2. The supported  *)
(* fragment includes first-order logic, set theory, functions and         *)
(* records.                                                               *)
(* SMT calls the smt-solver with the default timeout of 5 seconds         *)
(* while SMTT(n) calls the smt-solver with a timeout of n seconds.        *)
(*                                                                        *)
(* SMTT also accepts a string argument of the form "rN" to bound the      *)
(* underlying Z3 solver by a deterministic `rlimit` budget instead of a    *)
(* wall-clock timeout, e.g. SMTT("r5"). N is a multiple of a fixed base    *)
(* resource count, so a small readable budget like "r5" is meaningful.     *)
(* Unlike a wall-clock timeout, an `rlimit` budget does not depend on CPU  *)
(* speed or load, so the proof's pass/fail outcome reproduces on any       *)
(* machine and every rerun (for a fixed Z3 build); how long it takes to    *)
(* consume the budget still varies by machine. This is Z3-specific.        *)
(**************************************************************************)

SMT == TRUE (*{ by (prover:"smt3") }*)
SMTT(X) == TRUE (*{ by (prover:"smt3"; timeout:@) }*)


(**************************************************************************)
(* Backend pragma: CVC4 SMT solver                                        *)
(*                                                                        *)
(* These methods translate the proof obligation to SMTLIB2 and call CVC4. *)
(**************************************************************************)

(* The CVC3* methods are here for backward compatibility. They call CVC4. *)
CVC3 == TRUE (*{ by (prover: "cvc33") }*)
CVC3T(X) == TRUE (*{ by (prover:"cvc33"; timeout:@) }*)

CVC4 == TRUE (*{ by (prover: "cvc33") }*)
CVC4T(X) == TRUE (*{ by (prover:"cvc33"; timeout:@) }*)


(**************************************************************************)
(* Backend pragma: Yices SMT solver                                       *)
(*                                                                        *)
(* This method translates the proof obligation to Yices native language.  *)
(**************************************************************************)

Yices == TRUE (*{ by (prover: "yices3") }*)
YicesT(X) == TRUE (*{ by (prover:"yices3"; timeout:@) }*)

(**************************************************************************)
(* Backend pragma: veriT SMT solver                                       *)
(*                                                                        *)
(* This method translates the proof obligation to SMTLIB2 and calls veriT.*)
(**************************************************************************)

veriT == TRUE (*{ by (prover: "verit") }*)
veriTT(X) == TRUE (*{ by (prover:"verit"; timeout:@) }*)

(**************************************************************************)
(* Backend pragma: Zipperposition solver                                  *)
(*                                                                        *)
(* This method translates the proof obligation to TPTP and                *)
(* calls Zipperposition.                                                  *)
(**************************************************************************)

Zipper == TRUE (*{ by (prover: "zipper") }*)
ZipperT(X) == TRUE (*{ by (prover:"zipper"; timeout:@) }*)

(**************************************************************************)
(* Backend pragma: Z3 SMT solver                                          *)
(*                                                                        *)
(* This method translates the proof obligation to SMTLIB2 and calls Z3.   *)
(* Z3 is used by default but you can also explicitly call it.             *)
(* Z3T(n) bounds Z3 by a wall-clock timeout of n seconds, while Z3T("rN")  *)
(* bounds it by a deterministic `rlimit` budget of N base units, which      *)
(* reproduces the same outcome on any machine (see SMTT).                   *)
(**************************************************************************)

Z3 == TRUE (*{ by (prover: "z33") }*)
Z3T(X) == TRUE (*{ by (prover:"z33"; timeout:@) }*)

(**************************************************************************)
(* Backend pragma: SPASS superposition prover                             *)
(*                                                                        *)
(* This method translates the proof obligation to the DFG format language *)
(* supported by the ATP SPASS. The translation is based on the SMT one.   *)
(**************************************************************************)

Spass == TRUE (*{ by (prover: "spass") }*)
SpassT(X) == TRUE (*{ by (prover:"spass"; timeout:@) }*)

(**************************************************************************)
(* Backend pragma: The PTL propositional linear time temporal logic       *)
(* prover.  It currently is the LS4 backend.                              *)
(*                                                                        *)
(* This method translates the negetation of the proof obligation to       *)
(* Seperated Normal Form (TRP++ format) and checks for unsatisfiability   *)
(**************************************************************************)

LS4 == TRUE (*{ by (prover: "ls4") }*)
LS4T(X) == TRUE (*{ by (prover: "ls4"; timeout:@) }*)
PTL == TRUE (*{ by (prover: "ls4") }*)

(**************************************************************************)
(* Backend pragma: Zenon with different timeouts (default is 10 seconds)  *)
(*                                                                        *)
(**************************************************************************)

Zenon == TRUE (*{ by (prover:"zenon") }*)
ZenonT(X) == TRUE (*{ by (prover:"zenon"; timeout:@) }*)

(********************************************************************)
(* Backend pragma: Isabelle with different timeouts and tactics     *)
(*  (default is 30 seconds/auto)                                    *)
(********************************************************************)

Isa == TRUE (*{ by (prover:"isabelle") }*)
IsaT(X) ==  TRUE (*{ by (prover:"isabelle"; timeout:@) }*)
IsaM(X) ==  TRUE (*{ by (prover:"isabelle"; tactic:@) }*)
IsaMT(X,Y) ==  TRUE (*{ by (prover:"isabelle"; tactic:@; timeout:@) }*)

(***************************************************************************)
(* The following theorem expresses the (useful implication of the) law of  *)
(* set extensionality, which can be written as                             *)
(*                                                                         *)
(*    THEOREM  \A S, T : (S = T) <=> (\A x : (x \in S) <=> (x \in T))      *)
(*                                                                         *)
(* Theorem SetExtensionality is sometimes required by the SMT backend for  *)
(* reasoning about sets. It is usually counterproductive to include        *)
(* theorem SetExtensionality in a BY clause for the Zenon or Isabelle      *)
(* backends. Instead, use the pragma IsaWithSetExtensionality to instruct  *)
(* the Isabelle backend to use the rule of set extensionality.             *)
(***************************************************************************)
IsaWithSetExtensionality == TRUE
           (*{ by (prover:"isabelle"; tactic:"(auto intro: setEqualI)")}*)

THEOREM SetExtensionality == \A S,T : (\A x : x \in S <=> x \in T) => S = T
OBVIOUS

(***************************************************************************)
(* The following theorem is needed to deduce NotInSetS \notin SetS from    *)
(* the definition                                                          *)
(*                                                                         *)
(*   NotInSetS == CHOOSE v : v \notin SetS                                 *)
(***************************************************************************)
THEOREM NoSetContainsEverything == \A S : \E x : x \notin S
OBVIOUS (*{by (isabelle "(auto intro: inIrrefl)")}*)
-----------------------------------------------------------------------------



(********************************************************************)
(********************************************************************)
(********************************************************************)


(********************************************************************)
(* Old versions of Zenon and Isabelle pragmas below                 *)
(* (kept for compatibility)                                         *)
(********************************************************************)


(**************************************************************************)
(* Backend pragma: Zenon with different timeouts (default is 10 seconds)  *)
(*                                                                        *)
(**************************************************************************)

SlowZenon == TRUE (*{ by (prover:"zenon"; timeout:20) }*)
SlowerZenon == TRUE (*{ by (prover:"zenon"; timeout:40) }*)
VerySlowZenon == TRUE (*{ by (prover:"zenon"; timeout:80) }*)
SlowestZenon == TRUE (*{ by (prover:"zenon"; timeout:160) }*)



(********************************************************************)
(* Backend pragma: Isabelle's automatic search ("auto")             *)
(*                                                                  *)
(* This pragma bypasses Zenon. It is useful in situations involving *)
(* essentially simplification and equational reasoning.             *)
(* Default imeout for all isabelle tactics is 30 seconds.           *)
(********************************************************************)
Auto == TRUE (*{ by (prover:"isabelle"; tactic:"auto") }*)
SlowAuto == TRUE (*{ by (prover:"isabelle"; tactic:"auto"; timeout:120) }*)
SlowerAuto == TRUE (*{ by (prover:"isabelle"; tactic:"auto"; timeout:480) }*)
SlowestAuto == TRUE (*{ by (prover:"isabelle"; tactic:"auto"; timeout:960) }*)

(********************************************************************)
(* Backend pragma: Isabelle's "force" tactic                        *)
(*                                                                  *)
(* This pragma bypasses Zenon. It is useful in situations involving *)
(* quantifier reasoning.                                            *)
(********************************************************************)
Force == TRUE (*{ by (prover:"isabelle"; tactic:"force") }*)
SlowForce == TRUE (*{ by (prover:"isabelle"; tactic:"force"; timeout:120) }*)
SlowerForce == TRUE (*{ by (prover:"isabelle"; tactic:"force"; timeout:480) }*)
SlowestForce == TRUE (*{ by (prover:"isabelle"; tactic:"force"; timeout:960) }*)

(***********************************************************************)
(* Backend pragma: Isabelle's "simplification" tactics                 *)
(*                                                                     *)
(* These tactics simplify the goal before running one of the automated *)
(* tactics. They are often necessary for obligations involving record  *)
(* or tuple projections. Use the SimplfyAndSolve tactic unless you're  *)
(* sure you can get away with just Simplification                      *)
(***********************************************************************)
SimplifyAndSolve        == TRUE
    (*{ by (prover:"isabelle"; tactic:"clarsimp auto?") }*)
SlowSimplifyAndSolve    == TRUE
    (*{ by (prover:"isabelle"; tactic:"clarsimp auto?"; timeout:120) }*)
SlowerSimplifyAndSolve  == TRUE
    (*{ by (prover:"isabelle"; tactic:"clarsimp auto?"; timeout:480) }*)
SlowestSimplifyAndSolve == TRUE
    (*{ by (prover:"isabelle"; tactic:"clarsimp auto?"; timeout:960) }*)

Simplification == TRUE (*{ by (prover:"isabelle"; tactic:"clarsimp") }*)
SlowSimplification == TRUE
    (*{ by (prover:"isabelle"; tactic:"clarsimp"; timeout:120) }*)
SlowerSimplification  == TRUE
    (*{ by (prover:"isabelle"; tactic:"clarsimp"; timeout:480) }*)
SlowestSimplification == TRUE
    (*{ by (prover:"isabelle"; tactic:"clarsimp"; timeout:960) }*)

(**************************************************************************)
(* Backend pragma: Isabelle's tableau prover ("blast")                    *)
(*                                                                        *)
(* This pragma bypasses Zenon and uses Isabelle's built-in theorem        *)
(* prover, Blast. It is almost never better than Zenon by itself, but     *)
(* becomes very useful in combination with the Auto pragma above. The     *)
(* AutoBlast pragma first attempts Auto and then uses Blast to prove what *)
(* Auto could not prove. (There is currently no way to use Zenon on the   *)
(* results left over from Auto.)                                          *)
(**************************************************************************)
Blast == TRUE (*{ by (prover:"isabelle"; tactic:"blast") }*)
SlowBlast == TRUE (*{ by (prover:"isabelle"; tactic:"blast"; timeout:120) }*)
SlowerBlast == TRUE (*{ by (prover:"isabelle"; tactic:"blast"; timeout:480) }*)
SlowestBlast == TRUE (*{ by (prover:"isabelle"; tactic:"blast"; timeout:960) }*)

AutoBlast == TRUE (*{ by (prover:"isabelle"; tactic:"auto, blast") }*)


(**************************************************************************)
(* Backend pragmas: multi-back-ends                                       *)
(*                                                                        *)
(* These pragmas just run a bunch of back-ends one after the other in the *)
(* hope that one will succeed. This saves time and effort for the user at *)
(* the expense of computation time.                                       *)
(**************************************************************************)

(* CVC3 goes first because it's bundled with TLAPS, then the other SMT
   solvers are unlikely to succeed if CVC3 fails, so we run zenon and
   Isabelle before them. *)
AllProvers == TRUE (*{
    by (prover:"cvc33")
    by (prover:"zenon")
    by (prover:"isabelle"; tactic:"auto")
    by (prover:"spass")
    by (prover:"smt3")
    by (prover:"yices3")
    by (prover:"verit")
    by (prover:"z33")
    by (prover:"isabelle"; tactic:"force")
    by (prover:"isabelle"; tactic:"(auto intro: setEqualI)")
    by (prover:"isabelle"; tactic:"clarsimp auto?")
    by (prover:"isabelle"; tactic:"clarsimp")
    by (prover:"isabelle"; tactic:"auto, blast")
  }*)
AllProversT(X) == TRUE (*{
    by (prover:"cvc33"; timeout:@)
    by (prover:"zenon"; timeout:@)
    by (prover:"isabelle"; tactic:"auto"; timeout:@)
    by (prover:"spass"; timeout:@)
    by (prover:"smt3"; timeout:@)
    by (prover:"yices3"; timeout:@)
    by (prover:"verit"; timeout:@)
    by (prover:"z33"; timeout:@)
    by (prover:"isabelle"; tactic:"force"; timeout:@)
    by (prover:"isabelle"; tactic:"(auto intro: setEqualI)"; timeout:@)
    by (prover:"isabelle"; tactic:"clarsimp auto?"; timeout:@)
    by (prover:"isabelle"; tactic:"clarsimp"; timeout:@)
    by (prover:"isabelle"; tactic:"auto, blast"; timeout:@)
  }*)

AllSMT == TRUE (*{
    by (prover:"cvc33")
    by (prover:"smt3")
    by (prover:"yices3")
    by (prover:"verit")
    by (prover:"z33")
  }*)
AllSMTT(X) == TRUE (*{
    by (prover:"cvc33"; timeout:@)
    by (prover:"smt3"; timeout:@)
    by (prover:"yices3"; timeout:@)
    by (prover:"verit"; timeout:@)
    by (prover:"z33"; timeout:@)
  }*)

AllIsa == TRUE (*{
    by (prover:"isabelle"; tactic:"auto")
    by (prover:"isabelle"; tactic:"force")
    by (prover:"isabelle"; tactic:"(auto intro: setEqualI)")
    by (prover:"isabelle"; tactic:"clarsimp auto?")
    by (prover:"isabelle"; tactic:"clarsimp")
    by (prover:"isabelle"; tactic:"auto, blast")
  }*)
AllIsaT(X) == TRUE (*{
    by (prover:"isabelle"; tactic:"auto"; timeout:@)
    by (prover:"isabelle"; tactic:"force"; timeout:@)
    by (prover:"isabelle"; tactic:"(auto intro: setEqualI)"; timeout:@)
    by (prover:"isabelle"; tactic:"clarsimp auto?"; timeout:@)
    by (prover:"isabelle"; tactic:"clarsimp"; timeout:@)
    by (prover:"isabelle"; tactic:"auto, blast"; timeout:@)
  }*)


(**************************************************************************)
(* The pragma ExpandEnabled invokes expansion of the operator ENABLED.    *)
(*                                                                        *)
(* The pragma ExpandCdot invokes expansion of the operator \cdot.         *)
(*                                                                        *)
(* The pragma AutoUSE invokes automated expansion of definitions,         *)
(* for both of ExpandEnabled and ExpandCdot, when each is present.        *)
(*                                                                        *)
(* The pragma Lambdify invokes expansion of the operators                 *)
(* ENABLED and \cdot to an intermediate form with bound VARIABLES,        *)
(* which is a form before introducing rigid quantifiers.                  *)
(* The pragma Lambdify is sound for occurrences of ENABLED and \cdot      *)
(* that are not nested.                                                   *)
(**************************************************************************)
ExpandENABLED == TRUE  (*{ by (prover:"expandenabled") }*)
ExpandCdot == TRUE  (*{ by (prover:"expandcdot") }*)
AutoUSE == TRUE  (*{ by (prover:"autouse") }*)
Lambdify == TRUE  (*{ by (prover:"lambdify") }*)
ENABLEDaxioms == TRUE  (*{ by (prover:"enabledaxioms") }*)
LevelComparison == TRUE  (*{ by (prover:"levelcomparison") }*)

(* The operators EnabledWrapper and CdotWrapper occur in an intermediate  *)
(* representation within TLAPM.                                           *)
EnabledWrapper(Op(_)) == FALSE
CdotWrapper(Op(_)) == FALSE

(***************************************************************************)
(* The following may be used in a `BY ONLY ThmName` for unit testing the   *)
(* triviality checks in TLAPM.                                             *)
(***************************************************************************)
Trivial == TRUE  (*{ by (prover:"trivial") }*)


=============================================================================

The material below is obsolete: the TLA proof rules below are superseded by
the PTL decision procedure, and their formulation is unsound for the semantics
of temporal reasoning that TLAPS adopts.

----------------------------------------------------------------------------
(***************************************************************************)
(*                           TEMPORAL LOGIC                                *)
(*                                                                         *)
(* The following rules are intended to be used when TLAPS handles temporal *)
(* logic.  They will not work now.  Moreover when temporal reasoning is    *)
(* implemented, these rules may be changed or omitted, and additional      *)
(* rules will probably be added.  However, they are included mainly so     *)
(* their names will be defined, preventing the use of identifiers that are *)
(* likely to produce name clashes with future versions of this module.     *)
(***************************************************************************)


(***************************************************************************)
(* The following proof rules (and their names) are from the paper "The     *)
(* Temporal Logic of Actions".                                             *)
(***************************************************************************)
THEOREM RuleTLA1 == ASSUME STATE P, STATE f,
                           P /\ (f' = f) => P'
                    PROVE  []P <=> P /\ [][P => P']_f

THEOREM RuleTLA2 == ASSUME STATE P, STATE Q, STATE f, STATE g,
                           ACTION A, ACTION B,
                           P /\ [A]_f => Q /\ [B]_g
                    PROVE  []P /\ [][A]_f => []Q /\ [][B]_g

THEOREM RuleINV1 == ASSUME STATE I, STATE F,  ACTION N,
                           I /\ [N]_F => I'
                    PROVE  I /\ [][N]_F => []I

THEOREM RuleINV2 == ASSUME STATE I, STATE f, ACTION N
                    PROVE  []I => ([][N]_f <=> [][N /\ I /\ I']_f)

THEOREM RuleWF1 == ASSUME STATE P, STATE Q, STATE f, ACTION N, ACTION A,
                          P /\ [N]_f => (P' \/ Q'),
                          P /\ <<N /\ A>>_f => Q',
                          P => ENABLED <<A>>_f
                   PROVE  [][N]_f /\ WF_f(A) => (P ~> Q)

THEOREM RuleSF1 == ASSUME STATE P, STATE Q, STATE f,
                          ACTION N, ACTION A, TEMPORAL F,
                          P /\ [N]_f => (P' \/ Q'),
                          P /\ <<N /\ A>>_f => Q',
                          []P /\ [][N]_f /\ []F => <> ENABLED <<A>>_f
                   PROVE  [][N]_f /\ SF_f(A) /\ []F => (P ~> Q)

(***************************************************************************)
(* The rules WF2 and SF2 in "The Temporal Logic of Actions" are obtained   *)
(* from the following two rules by the following substitutions: `.         *)
(*                                                                         *)
(*          ___        ___         _______________                         *)
(*      M <- M ,   g <- g ,  EM <- ENABLED <<M>>_g       .'                *)
(***************************************************************************)
THEOREM RuleWF2 == ASSUME STATE P, STATE f, STATE g, STATE EM,
                          ACTION A, ACTION B, ACTION N, ACTION M,
                          TEMPORAL F,
                          <<N /\ B>>_f => <<M>>_g,
                          P /\ P' /\ <<N /\ A>>_f /\ EM => B,
                          P /\ EM => ENABLED A,
                          [][N /\ ~B]_f /\ WF_f(A) /\ []F /\ <>[]EM => <>[]P
                   PROVE  [][N]_f /\ WF_f(A) /\ []F => []<><<M>>_g \/ []<>(~EM)

THEOREM RuleSF2 == ASSUME STATE P, STATE f, STATE g, STATE EM,
                          ACTION A, ACTION B, ACTION N, ACTION M,
                          TEMPORAL F,
                          <<N /\ B>>_f => <<M>>_g,
                          P /\ P' /\ <<N /\ A>>_f /\ EM => B,
                          P /\ EM => ENABLED A,
                          [][N /\ ~B]_f /\ SF_f(A) /\ []F /\ []<>EM => <>[]P
                   PROVE  [][N]_f /\ SF_f(A) /\ []F => []<><<M>>_g \/ <>[](~EM)


(***************************************************************************)
(* The following rule is a special case of the general temporal logic      *)
(* proof rule STL4 from the paper "The Temporal Logic of Actions".  The    *)
(* general rule is for arbitrary temporal formulas F and G, but it cannot  *)
(* yet be handled by TLAPS.                                                *)
(***************************************************************************)
THEOREM RuleInvImplication ==
  ASSUME STATE F, STATE G,
         F => G
  PROVE  []F => []G
PROOF OMITTED

(***************************************************************************)
(* The following rule is a special case of rule TLA2 from the paper "The   *)
(* Temporal Logic of Actions".                                             *)
(***************************************************************************)
THEOREM RuleStepSimulation ==
  ASSUME STATE I, STATE f, STATE g,
         ACTION M, ACTION N,
         I /\ I' /\ [M]_f => [N]_g
  PROVE  []I /\ [][M]_f => [][N]_g
PROOF OMITTED

(***************************************************************************)
(* The following may be used to invoke a decision procedure for            *)
(* propositional temporal logic.                                           *)
(***************************************************************************)
PropositionalTemporalLogic == TRUE
=============================================================================
