---------------------------- MODULE BiomProps3 ----------------------------
(***************************************************************************)
(* Property clauses, part 3: merge (C09), concat (C10), partition and      *)
(* collapse (C11), subsample (C12).                                        *)
(***************************************************************************)
EXTENDS BiomProps2

\* ------------------------------------------------------------------ C09 merge
\* args.others : sequence of slots (one element for the single-table form)
Operands(ev) == <<ev.pre[ev.recv]>> \o [k \in 1..Len(ev.args.others) |-> ev.pre[ev.args.others[k]]]
UnionIds(tabs, ax) == UNION {SeqSet(Ids(tabs[k], ax)) : k \in 1..Len(tabs)}
InterIds(tabs, ax) == {x \in UnionIds(tabs, ax) : \A k \in 1..Len(tabs) : Has(tabs[k], ax, x)}
SumAt(tabs, o, s) == SumSeq([k \in 1..Len(tabs) |-> ValOr0(tabs[k], o, s)])
\* default policy: the receiver's metadata if it has any for that ID, otherwise the other's
RECURSIVE FirstRow(_, _, _)
FirstRow(tabs, ax, id) ==
  IF tabs = <<>> THEN {}
  ELSE IF Md(Head(tabs), ax).has /\ Has(Head(tabs), ax, id) THEN RowOf(Head(tabs), ax, id)
  ELSE FirstRow(Tail(tabs), ax, id)

Clauses_merge(ev) ==
  LET tabs == Operands(ev)
      a    == ev.args
      wantS == IF a.sample = "union" THEN UnionIds(tabs, "sample") ELSE InterIds(tabs, "sample")
      wantO == IF a.observation = "union" THEN UnionIds(tabs, "observation") ELSE InterIds(tabs, "observation")
  IN IF \E k \in 1..Len(tabs) : IsEmptyTable(tabs[k]) THEN [C09_out_of_domain_empty_operand |-> TRUE]
     ELSE IF wantS = {} \/ wantO = {}
     THEN [C09_empty_result_refused |-> Failed(ev) /\ HeapUnchanged(ev)]
     ELSE IF Failed(ev) THEN [C09_merge_succeeds |-> FALSE]
     ELSE LET post == ev.post[ev.res] IN
      [C09_id_sets_union_or_intersection |->
          /\ SeqSet(post.samp) = wantS /\ SeqSet(post.obs) = wantO
          /\ IsInj(post.samp) /\ IsInj(post.obs),
       C09_values_are_sums_of_operands |->
          \A i \in 1..Len(post.obs), j \in 1..Len(post.samp) :
             VEq(post.mat[i][j], SumAt(tabs, post.obs[i], post.samp[j])),
       C09_total_is_sum_of_totals |->
          (a.sample = "union" /\ a.observation = "union") =>
             VEq(Total(post), SumSeq([k \in 1..Len(tabs) |-> Total(tabs[k])])),
       C09_default_metadata_prefers_receiver |->
          \* per axis: the default policy (receiver's metadata if it has any for the ID, else the other's)
          /\ (a.omf = "default") =>
                \A i \in 1..Len(post.obs) : RowAt(post, "observation", i) = FirstRow(tabs, "observation", post.obs[i])
          /\ (a.smf = "default") =>
                \A j \in 1..Len(post.samp) : RowAt(post, "sample", j) = FirstRow(tabs, "sample", post.samp[j]),
       C09_metadata_function_applied |->
          \* obs.mdcalls[k] = [axis, id, self_md, other_md, ret]: every logged call got the operands'
          \* metadata for that ID, and the result carries what the function returned
          ((a.smf = "custom" \/ a.omf = "custom") /\ (\E k \in 1..Len(tabs) : tabs[k].omd.has \/ tabs[k].smd.has)) =>
             /\ \A k \in 1..Len(ev.obs.mdcalls) :
                  LET c == ev.obs.mdcalls[k] IN
                  /\ SeqSet(c.self_md) = (IF Has(tabs[1], c.axis, c.id) THEN RowOf(tabs[1], c.axis, c.id) ELSE {})
                  /\ SeqSet(c.other_md) = (IF Has(tabs[2], c.axis, c.id) THEN RowOf(tabs[2], c.axis, c.id) ELSE {})
                  /\ Has(post, c.axis, c.id) => RowOf(post, c.axis, c.id) = SeqSet(c.ret)
             /\ \A ax \in {x \in Axes : (IF x = "sample" THEN a.smf ELSE a.omf) = "custom"} : \A x \in SeqSet(Ids(post, ax)) :
                  \E k \in 1..Len(ev.obs.mdcalls) : ev.obs.mdcalls[k].axis = ax /\ ev.obs.mdcalls[k].id = x,
       C09_fast_and_general_paths_agree |->
          \* the driver merged deep copies again along the other implementation path
          ev.obs.alt_ran =>
             /\ ev.obs.alt_out = "ok"
             /\ SeqSet(ev.obs.alt.obs) = SeqSet(post.obs) /\ SeqSet(ev.obs.alt.samp) = SeqSet(post.samp)
             /\ Len(ev.obs.alt.obs) = Len(post.obs) /\ Len(ev.obs.alt.samp) = Len(post.samp)
             /\ \A i \in 1..Len(post.obs), j \in 1..Len(post.samp) :
                   Has(ev.obs.alt, "observation", post.obs[i]) /\ Has(ev.obs.alt, "sample", post.samp[j])
                   /\ VEq(post.mat[i][j], Val(ev.obs.alt, post.obs[i], post.samp[j])),
       C07_inputs_unchanged |-> FrameRule(ev, {ev.res}),
       C07_result_is_a_new_table |-> ~ev.obs.ret_is_recv]

\* ----------------------------------------------------------------- C10 concat
Clauses_concat(ev) ==
  LET tabs == Operands(ev)
      ax   == ev.args.axis
      oth  == Other(ax)
  IN IF \E k \in 1..Len(tabs) : IsEmptyTable(tabs[k]) THEN [C10_out_of_domain_empty_operand |-> TRUE]
     ELSE IF ~ConcatDisjoint(tabs, ax)
     THEN [C10_overlapping_ids_refused |-> Failed(ev) /\ HeapUnchanged(ev)]
     ELSE IF Failed(ev) THEN [C10_concat_succeeds |-> FALSE]
     ELSE LET post == ev.post[ev.res] IN
      [C10_axis_ids_in_operand_order |-> Ids(post, ax) = ConcatIds(tabs, ax),
       C10_other_axis_is_union |-> SeqSet(Ids(post, oth)) = UnionIds(tabs, oth) /\ IsInj(Ids(post, oth)),
       C10_block_values_or_zero |->
          \A k \in 1..Len(Ids(post, ax)) : \A m \in 1..Len(Ids(post, oth)) :
             LET id  == Ids(post, ax)[k]
                 oid == Ids(post, oth)[m]
                 v   == IF ax = "observation" THEN post.mat[k][m] ELSE post.mat[m][k]
             IN (\E p \in 1..Len(tabs) : Has(tabs[p], ax, id)) =>
                LET own == tabs[OwnerOf(tabs, ax, id)] IN
                IF Has(own, oth, oid)
                THEN v = (IF ax = "observation" THEN Val(own, id, oid) ELSE Val(own, oid, id))
                ELSE IsZero(v),
       C10_metadata_travels_with_id |->
          \A k \in 1..Len(Ids(post, ax)) :
             LET id == Ids(post, ax)[k] IN
             (\E p \in 1..Len(tabs) : Has(tabs[p], ax, id)) =>
                RowAt(post, ax, k) = RowOf(tabs[OwnerOf(tabs, ax, id)], ax, id),
       C10_total_is_sum_of_totals |-> VEq(Total(post), SumSeq([k \in 1..Len(tabs) |-> Total(tabs[k])])),
       C07_inputs_unchanged |-> FrameRule(ev, {ev.res}),
       C07_result_is_a_new_table |-> ~ev.obs.ret_is_recv]

\* -------------------------------------------------------------- C11 partition
\* obs.labels : sequence of [id, label, none] (what the labelling function returned per ID, in
\* call order); obs.parts : sequence of [label, none, t] (the yielded tables).
LabelOf(labels, id) == labels[CHOOSE k \in 1..Len(labels) : labels[k].id = id]
Clauses_partition(ev) ==
  LET pre == ev.pre[ev.recv]
      a   == ev.args
      ax  == a.axis
      oth == Other(ax)
      labels == ev.obs.labels
      parts  == ev.obs.parts
      ids == Ids(pre, ax)
      kept(id) == ~(a.ignore_none /\ LabelOf(labels, id).none)
      sameLabel(x, y) == x.none = y.none /\ (x.none \/ x.label = y.label)
      \* when removal of empty vectors is requested an all-zero vector may be missing from its part
      zeroIds == IF a.remove_empty THEN {id \in SeqSet(ids) : VecZero(VecOf(pre, ax, id))} ELSE {}
      exactly(S, C) == S \subseteq C /\ (C \ S) \subseteq zeroIds
  IN IF IsEmptyTable(pre) THEN [C11_out_of_domain_empty_table |-> TRUE]
     ELSE IF Failed(ev) THEN [C11_partition_succeeds |-> FALSE]
     ELSE
      [C11_labelling_called_once_per_id |-> [k \in 1..Len(labels) |-> labels[k].id] = ids,
       C11_parts_hold_exactly_their_label_class |->
          Len(labels) = Len(ids) =>
          \A p \in 1..Len(parts) :
             exactly(SeqSet(Ids(parts[p].t, ax)),
                     {id \in SeqSet(ids) : kept(id) /\ sameLabel(LabelOf(labels, id), parts[p])})
             /\ IsInj(Ids(parts[p].t, ax)),
       C11_parts_disjoint_and_cover |->
          Len(labels) = Len(ids) =>
          /\ \A p, q \in 1..Len(parts) : p # q => SeqSet(Ids(parts[p].t, ax)) \cap SeqSet(Ids(parts[q].t, ax)) = {}
          /\ exactly(UNION {SeqSet(Ids(parts[p].t, ax)) : p \in 1..Len(parts)}, {id \in SeqSet(ids) : kept(id)}),
       C11_parts_carry_vectors_and_metadata |->
          \A p \in 1..Len(parts) :
             LET t == parts[p].t IN
             /\ \A k \in 1..Len(Ids(t, ax)) :
                  Has(pre, ax, Ids(t, ax)[k]) /\ RowAt(t, ax, k) = RowOf(pre, ax, Ids(t, ax)[k])
             /\ \A i \in 1..Len(t.obs), j \in 1..Len(t.samp) :
                  Has(pre, "observation", t.obs[i]) /\ Has(pre, "sample", t.samp[j])
                  /\ t.mat[i][j] = Val(pre, t.obs[i], t.samp[j]),
       C11_parts_keep_complete_other_axis |->
          \A p \in 1..Len(parts) :
             LET t == parts[p].t IN
             IF a.remove_empty
             THEN \* exactly the other-axis IDs with a non-zero entry in this part survive (in order)
                  Ids(t, oth) = SelectSeq(Ids(pre, oth), LAMBDA oid :
                                   \E id \in SeqSet(Ids(t, ax)) :
                                      ~IsZero(IF ax = "observation" THEN Val(pre, id, oid) ELSE Val(pre, oid, id)))
             ELSE Ids(t, oth) = Ids(pre, oth) /\ MdEq(t, pre, oth),
       C05_parts_coherent |-> \A p \in 1..Len(parts) : C05_Coherent(parts[p].t),
       C07_inputs_unchanged |-> HeapUnchanged(ev)]

\* ---------------------------------------------------------------- C11 collapse
Members(labels, L) == {labels[k].id : k \in {x \in 1..Len(labels) : ~labels[x].none /\ labels[x].label = L}}
LabelSet(labels) == {labels[k].label : k \in {x \in 1..Len(labels) : ~labels[x].none}}
VecOn(t, ax, id, oid) == IF ax = "observation" THEN Val(t, id, oid) ELSE Val(t, oid, id)
CellOn(t, ax, k, m) == IF ax = "observation" THEN t.mat[k][m] ELSE t.mat[m][k]

Clauses_collapse(ev) ==
  LET pre == ev.pre[ev.recv]
      a   == ev.args
      ax  == a.axis
      oth == Other(ax)
      labels == ev.obs.labels
      big == {L \in LabelSet(labels) : Cardinality(Members(labels, L)) >= a.min_group_size}
  IN IF IsEmptyTable(pre) THEN [C11_out_of_domain_empty_table |-> TRUE]
     ELSE IF Failed(ev) THEN [C11_collapse_succeeds |-> big = {}]
     ELSE LET post == ev.post[ev.res] IN
      [C11_one_vector_per_label_of_min_size |-> SeqSet(Ids(post, ax)) = big /\ IsInj(Ids(post, ax)),
       C11_collapsed_vector_is_sum_of_members |->
          Ids(post, oth) = Ids(pre, oth) =>
          \A k \in 1..Len(Ids(post, ax)) : \A m \in 1..Len(Ids(post, oth)) :
             LET L == Ids(post, ax)[k]
                 mem == Members(labels, L)
                 s == SumOverSet(mem, [id \in mem |-> VecOn(pre, ax, id, Ids(pre, oth)[m])])
             IN VEq(CellOn(post, ax, k, m), IF a.norm THEN DivNat(s, Cardinality(mem)) ELSE s),
       C11_collapsed_ids_lists_the_members |->
          a.include_collapsed_metadata =>
          \A k \in 1..Len(Ids(post, ax)) :
             \E e \in RowAt(post, ax, k) :
                /\ e[1] = "collapsed_ids" /\ e[2] = "l"
                /\ SeqSet(e[3]) = Members(labels, Ids(post, ax)[k])
                /\ Len(e[3]) = Cardinality(Members(labels, Ids(post, ax)[k])),
       C11_other_axis_kept |-> Ids(post, oth) = Ids(pre, oth) /\ MdEq(post, pre, oth),
       C11_totals_conserved |->
          (~a.norm /\ a.min_group_size <= 1 /\ Ids(post, oth) = Ids(pre, oth)
            /\ \A k \in 1..Len(labels) : ~labels[k].none) =>
             \A m \in 1..Len(Ids(pre, oth)) : VEq(SumAxis(post, oth)[m], SumAxis(pre, oth)[m]),
       C07_inputs_unchanged |-> FrameRule(ev, {ev.res}),
       C07_result_is_a_new_table |-> ~ev.obs.ret_is_recv]

\* one-to-many: args.groups : sequence of <<id, <<g1, g2, ...>>>> (what the pathway generator
\* yields per ID, duplicates allowed); mode "add" | "divide"
GroupsOf(gs, id) == IF \E k \in 1..Len(gs) : gs[k][1] = id
                    THEN gs[CHOOSE k \in 1..Len(gs) : gs[k][1] = id][2] ELSE <<>>
Mult(gs, id, g) == Cardinality({q \in 1..Len(GroupsOf(gs, id)) : GroupsOf(gs, id)[q] = g})
AllGroups(gs, ids) == UNION {SeqSet(GroupsOf(gs, ids[k])) : k \in 1..Len(ids)}

Clauses_collapse_otm(ev) ==
  LET pre == ev.pre[ev.recv]
      a   == ev.args
      ax  == a.axis
      oth == Other(ax)
      gs  == a.groups
      ids == Ids(pre, ax)
      G   == AllGroups(gs, ids)
  IN IF G = {} \/ IsEmptyTable(pre) \/ ~Md(pre, ax).has    \* the property: "on axes that carry metadata"
     THEN [C11_one_to_many_out_of_domain |-> TRUE]
     ELSE IF Failed(ev) THEN [C11_collapse_succeeds |-> FALSE]
     ELSE LET post == ev.post[ev.res] IN
      [C11_one_to_many_groups_become_ids |-> SeqSet(Ids(post, ax)) = G /\ IsInj(Ids(post, ax)),
       C11_one_to_many_contributions |->
          Ids(post, oth) = Ids(pre, oth) =>
          \A k \in 1..Len(Ids(post, ax)) : \A m \in 1..Len(Ids(post, oth)) :
             LET g == Ids(post, ax)[k]
                 S == SeqSet(ids)
                 contrib == [id \in S |->
                    LET v == VecOn(pre, ax, id, Ids(pre, oth)[m])
                        w == Mul(v, R(Mult(gs, id, g)))
                    IN IF a.mode = "divide" /\ Len(GroupsOf(gs, id)) > 0
                       THEN DivNat(w, Len(GroupsOf(gs, id))) ELSE w]
             IN VEq(CellOn(post, ax, k, m), SumOverSet(S, contrib)),
       C11_divide_conserves_totals |->
          (a.mode = "divide" /\ Ids(post, oth) = Ids(pre, oth)
             /\ \A k \in 1..Len(ids) : Len(GroupsOf(gs, ids[k])) > 0) =>
             \A m \in 1..Len(Ids(pre, oth)) : VEq(SumAxis(post, oth)[m], SumAxis(pre, oth)[m]),
       C11_other_axis_kept |-> Ids(post, oth) = Ids(pre, oth) /\ MdEq(post, pre, oth),
       C07_inputs_unchanged |-> FrameRule(ev, {ev.res})]

\* --------------------------------------------------------------- C12 subsample
AllNat(t) == \A c \in Cells(t) : IsNat(t.mat[c[1]][c[2]])
Clauses_subsample(ev) ==
  LET pre == ev.pre[ev.recv]
      a   == ev.args
      ax  == a.axis
      oth == Other(ax)
      n   == a.n
      ids == Ids(pre, ax)
      tot(id) == VecSum(VecOf(pre, ax, id))
  IN IF ~AllNat(pre) \/ n < 1 THEN [C12_out_of_domain |-> TRUE]
     ELSE IF Failed(ev) THEN [C12_subsample_succeeds |-> FALSE]
     ELSE LET post == ev.post[ev.res]
              pids == Ids(post, ax)
          IN
      IF a.by_id THEN
      [C12_by_id_keeps_min_n_N_ids |->
          /\ SeqSet(pids) \subseteq SeqSet(ids) /\ IsInj(pids)
          /\ Len(pids) = (IF n < Len(ids) THEN n ELSE Len(ids)),
       C12_by_id_values_unchanged |->
          \A i \in 1..Len(post.obs), j \in 1..Len(post.samp) :
             Has(pre, "observation", post.obs[i]) /\ Has(pre, "sample", post.samp[j])
             /\ post.mat[i][j] = Val(pre, post.obs[i], post.samp[j]),
       C12_same_seed_same_result |-> ev.obs.again_out = "ok" /\ SameTable(ev.obs.again, post),
       C12_input_never_modified |-> FrameRule(ev, {ev.res}),
       C07_inputs_unchanged |-> FrameRule(ev, {ev.res})]
      ELSE
      [C12_retained_vectors_sum_to_n |->
          \A k \in 1..Len(pids) : VEq(VecSum(Vec(post, ax, k)), R(n)),
       C12_exactly_vectors_with_total_at_least_n_retained |->
          IF a.with_replacement
          THEN pids = SelectSeq(ids, LAMBDA id : IsPos(tot(id)))
          ELSE pids = SelectSeq(ids, LAMBDA id : Leq(R(n), tot(id))),
       C12_entries_are_counts_bounded_by_original |->
          \A i \in 1..Len(post.obs), j \in 1..Len(post.samp) :
             /\ Has(pre, "observation", post.obs[i]) /\ Has(pre, "sample", post.samp[j])
             /\ IsNat(post.mat[i][j])
             /\ IF a.with_replacement
                THEN IsZero(Val(pre, post.obs[i], post.samp[j])) => IsZero(post.mat[i][j])
                ELSE Leq(post.mat[i][j], Val(pre, post.obs[i], post.samp[j])),
       C12_emptied_other_axis_vectors_dropped |->
          /\ \A m \in 1..Len(Ids(post, oth)) : ~VecZero(Vec(post, oth, m))
          /\ IsInj(Ids(post, oth)) /\ SeqSet(Ids(post, oth)) \subseteq SeqSet(Ids(pre, oth)),
       C12_metadata_travels |->
          /\ \A k \in 1..Len(pids) : Has(pre, ax, pids[k]) /\ RowAt(post, ax, k) = RowOf(pre, ax, pids[k])
          /\ \A m \in 1..Len(Ids(post, oth)) :
               Has(pre, oth, Ids(post, oth)[m]) /\ RowAt(post, oth, m) = RowOf(pre, oth, Ids(post, oth)[m]),
       C12_same_seed_same_result |-> ev.obs.again_out = "ok" /\ SameTable(ev.obs.again, post),
       C12_input_never_modified |-> FrameRule(ev, {ev.res}),
       C07_inputs_unchanged |-> FrameRule(ev, {ev.res}),
       C07_result_is_a_new_table |-> ~ev.obs.ret_is_recv]
=============================================================================
