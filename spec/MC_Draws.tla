------------------------------ MODULE MC_Draws ------------------------------
(***************************************************************************)
(* Exact reference distribution for subsampling one vector (C12: "each     *)
(* original unit count (or ID) is equally likely to be kept").             *)
(* counts = <<c1..ck>>, depth n.                                            *)
(*   without replacement : outcome o (sum n, o[i] <= c[i]) has weight       *)
(*                         PROD Binom(c[i], o[i])      (multivariate        *)
(*                         hypergeometric, normaliser Binom(sum c, n))      *)
(*   with replacement    : weight n! / PROD o[i]! * PROD c[i]^o[i]           *)
(*                         (multinomial with p[i] = c[i] / sum c)           *)
(*   by id (k IDs)       : every subset of min(n, k) IDs has weight 1       *)
(* TLC enumerates the outcomes and prints them with their integer weights;  *)
(* the harness draws with many seeds from the real implementation and       *)
(* compares the empirical frequencies with these weights (chi-square).      *)
(***************************************************************************)
EXTENDS Integers, Sequences, FiniteSets, TLC, Json, IOUtils, SequencesExt

Cfg == JsonDeserialize(IOEnv.DRAW_CFG)
C == Cfg.counts
N == Cfg.n
K == Len(C)

RECURSIVE Binom(_, _), Fact(_), Pow(_, _), SumTo(_, _), ProdTo(_, _)
Binom(a, b) == IF b = 0 THEN 1 ELSE IF b > a THEN 0 ELSE (Binom(a - 1, b - 1) * a) \div b
Fact(a) == IF a <= 1 THEN 1 ELSE a * Fact(a - 1)
Pow(a, b) == IF b = 0 THEN 1 ELSE a * Pow(a, b - 1)
SumTo(f, i) == IF i = 0 THEN 0 ELSE f[i] + SumTo(f, i - 1)
ProdTo(f, i) == IF i = 0 THEN 1 ELSE f[i] * ProdTo(f, i - 1)

Without == {o \in [1..K -> 0..N] : SumTo(o, K) = N /\ \A i \in 1..K : o[i] <= C[i]}
WWithout(o) == ProdTo([i \in 1..K |-> Binom(C[i], o[i])], K)
With == {o \in [1..K -> 0..N] : SumTo(o, K) = N /\ \A i \in 1..K : (C[i] = 0 => o[i] = 0)}
WWith(o) == (Fact(N) \div ProdTo([i \in 1..K |-> Fact(o[i])], K)) * ProdTo([i \in 1..K |-> Pow(C[i], o[i])], K)
MinOf(a, b) == IF a < b THEN a ELSE b
ById == {o \in [1..K -> 0..1] : SumTo(o, K) = MinOf(N, K)}

Dist == CASE Cfg.mode = "without" -> {<<o, WWithout(o)>> : o \in Without}
          [] Cfg.mode = "with"    -> {<<o, WWith(o)>> : o \in With}
          [] OTHER                -> {<<o, 1>> : o \in ById}
\* sanity of the reference itself: the weights add up to the normaliser
Total == LET S == {d \in Dist : TRUE} IN
         LET RECURSIVE Acc(_)
             Acc(T) == IF T = {} THEN 0 ELSE LET x == CHOOSE y \in T : TRUE IN x[2] + Acc(T \ {x})
         IN Acc(S)
Normaliser == CASE Cfg.mode = "without" -> Binom(SumTo(C, K), N)
                [] Cfg.mode = "with" -> Pow(SumTo(C, K), N)
                [] OTHER -> Binom(K, MinOf(N, K))
ASSUME Total = Normaliser
ASSUME PrintT(ToJson([dist |-> SetToSeq(Dist), total |-> Total]))

VARIABLE x
Init == x = 0
Next == UNCHANGED x
Spec == Init /\ [][Next]_x
=============================================================================
