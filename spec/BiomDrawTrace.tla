---------------------------- MODULE BiomDrawTrace ----------------------------
(***************************************************************************)
(* Judge for the distribution half of C12: "each original unit count (or   *)
(* ID) is equally likely to be kept".                                      *)
(*                                                                         *)
(* One event = K real calls of Table.subsample (seeds s0 .. s0+K-1) on one *)
(* small table, summarised as a histogram of outcomes:                     *)
(*   args.vectors : the count vectors drawn from (one per ID of the axis)  *)
(*   args.n, args.mode ("without" | "with" | "by_id"), args.K              *)
(*   obs.hist     : <<outcome, times seen>>; an outcome is one result      *)
(*                  vector per drawn vector (0 for a dropped coordinate;   *)
(*                  for by_id a single 0/1 vector "ID kept")               *)
(* The reference distribution is computed here, exactly, from the          *)
(* statement of the property (MC_Draws states the same weights and checks  *)
(* them against their closed-form normalisers):                            *)
(*   without replacement: every n-subset of the sum(c) unit counts is      *)
(*       equally likely  =>  weight(o) = PROD Binom(c[i], o[i])            *)
(*   with replacement: every unit count equally likely at each of n draws  *)
(*       =>  weight(o) = n!/PROD o[i]! * PROD c[i]^o[i]                     *)
(*   by id: every min(n,k)-subset of the IDs equally likely => weight 1    *)
(*   different vectors are drawn independently => weights multiply         *)
(* Clauses: every outcome seen is possible (exact); every possible outcome *)
(* is seen and the frequency of each outcome is within 7 standard          *)
(* deviations of K * weight / total (a fair implementation fails that with *)
(* probability < 1e-10 per outcome; the harness keeps total <= 60 and      *)
(* K <= 20000 so every product below fits TLC's 32-bit integers).          *)
(***************************************************************************)
EXTENDS Integers, Sequences, FiniteSets, TLC, Json, IOUtils, TLCExt

Traces == ndJsonDeserialize(IOEnv.TRACE_FILE)

RECURSIVE Binom(_, _), Fact(_), Pow(_, _), SumTo(_, _), ProdTo(_, _)
Binom(a, b) == IF b = 0 THEN 1 ELSE IF b > a THEN 0 ELSE (Binom(a - 1, b - 1) * a) \div b
Fact(a) == IF a <= 1 THEN 1 ELSE a * Fact(a - 1)
Pow(a, b) == IF b = 0 THEN 1 ELSE a * Pow(a, b - 1)
SumTo(f, i) == IF i = 0 THEN 0 ELSE f[i] + SumTo(f, i - 1)
ProdTo(f, i) == IF i = 0 THEN 1 ELSE f[i] * ProdTo(f, i - 1)
MinOf(a, b) == IF a < b THEN a ELSE b
Zeros(k) == [i \in 1..k |-> 0]

\* distribution of one vector: a set of <<outcome, weight>>
Dist1(c, n, mode) ==
  LET k == Len(c)
      tot == SumTo(c, k)
  IN CASE mode = "without" ->
            IF tot < n THEN {<<Zeros(k), 1>>}
            ELSE {<<o, ProdTo([i \in 1..k |-> Binom(c[i], o[i])], k)>> :
                    o \in {o \in [1..k -> 0..n] : SumTo(o, k) = n /\ \A i \in 1..k : o[i] <= c[i]}}
       [] mode = "with" ->
            IF tot = 0 THEN {<<Zeros(k), 1>>}
            ELSE {<<o, (Fact(n) \div ProdTo([i \in 1..k |-> Fact(o[i])], k))
                       * ProdTo([i \in 1..k |-> Pow(c[i], o[i])], k)>> :
                    o \in {o \in [1..k -> 0..n] : SumTo(o, k) = n /\ \A i \in 1..k : (c[i] = 0 => o[i] = 0)}}
       [] OTHER -> {<<o, 1>> : o \in {o \in [1..k -> 0..1] : SumTo(o, k) = MinOf(n, k)}}

\* joint distribution of independent vectors: outcome = sequence of outcomes, weights multiply
RECURSIVE Joint(_, _, _)
Joint(vs, n, mode) ==
  IF vs = <<>> THEN {<<(<<>>), 1>>}
  ELSE {<<(<<d[1]>>) \o r[1], d[2] * r[2]>> : d \in Dist1(Head(vs), n, mode), r \in Joint(Tail(vs), n, mode)}

RECURSIVE SumW(_)
SumW(S) == IF S = {} THEN 0 ELSE LET x == CHOOSE y \in S : TRUE IN x[2] + SumW(S \ {x})

SeqRange(s) == {s[i] : i \in 1..Len(s)}
Seen(hist, o) == IF \E h \in SeqRange(hist) : h[1] = o
                 THEN (CHOOSE h \in SeqRange(hist) : h[1] = o)[2] ELSE 0

Abs(x) == IF x < 0 THEN -x ELSE x

Clauses_draws(ev) ==
  LET a == ev.args
      D == Joint(a.vectors, a.n, a.mode)
      T == SumW(D)
      K == a.K
      support == {d[1] : d \in D}
      hist == ev.obs.hist
      minw == CHOOSE w \in {d[2] : d \in D} : \A d \in D : w <= d[2]
      Z2 == 49
  IN [C12_every_call_returned_a_table |-> ev.obs.errors = 0 /\ SumTo([i \in 1..Len(hist) |-> hist[i][2]], Len(hist)) = K,
      C12_every_draw_is_a_possible_outcome |-> \A h \in SeqRange(hist) : h[1] \in support,
      C12_every_possible_outcome_is_drawn |-> (K * minw >= 40 * T) => \A o \in support : Seen(hist, o) > 0,
      C12_each_unit_count_equally_likely_to_be_kept |->
         \A d \in D :
            LET diff == Abs(T * Seen(hist, d[1]) - K * d[2])
            IN diff <= 40000 /\ diff * diff <= Z2 * K * d[2] * (T - d[2])]

InBounds(ev) == ev.args.K <= 20000 /\ SumW(Joint(ev.args.vectors, ev.args.n, ev.args.mode)) <= 60

VARIABLES tid, l, viol, seen, cnt
vars == <<tid, l, viol, seen, cnt>>
Init == tid \in 1..Len(Traces) /\ l = 1 /\ viol = {} /\ seen = {} /\ cnt = 0
Events(t) == Traces[t].events
Step ==
  /\ l <= Len(Events(tid))
  /\ LET ev == Events(tid)[l]
         c  == IF InBounds(ev) THEN Clauses_draws(ev) ELSE [TRACE_draw_event_within_integer_bounds |-> FALSE]
     IN /\ viol' = viol \cup {<<l, k, ev.call>> : k \in {x \in DOMAIN c : ~c[x]}}
        /\ seen' = seen \cup DOMAIN c
        /\ cnt'  = cnt + Cardinality(DOMAIN c)
  /\ l' = l + 1
  /\ UNCHANGED tid
Spec == Init /\ [][Step]_vars
Report ==
  (l = Len(Events(tid)) + 1) =>
     /\ \A v \in viol : PrintT(ToJson([k |-> "FAIL", id |-> Traces[tid].id, l |-> v[1],
                                         clause |-> v[2], call |-> v[3]]))
     /\ PrintT(ToJson([k |-> "DONE", id |-> Traces[tid].id, n |-> l - 1, cnt |-> cnt, seen |-> seen]))
=============================================================================
