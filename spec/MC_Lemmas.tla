----------------------------- MODULE MC_Lemmas -----------------------------
(***************************************************************************)
(* Algebraic identities of the constructive operators, checked by TLC for  *)
(* EVERY table of a small universe (independent of the implementation):    *)
(* they guard the specification itself, which is the oracle of every       *)
(* check.  Universe: all matrices up to MaxN x MaxM over Vals, with and    *)
(* without metadata; all subsets / permutations of each axis.              *)
(***************************************************************************)
EXTENDS BiomModel

CONSTANTS MaxN, MaxM, Vals
VARIABLE tbl

LemmaHeaps == {}
LemmaPhases == <<>>
LemmaVals2 == {<<0, 1>>, <<2, 1>>}
LemmaVals == {<<0, 1>>, <<1, 1>>, <<2, 1>>}
LemmaRank == [x \in {"o1", "o2", "o3", "s1", "s2", "s3", "g0", "g1"} |->
                CASE x = "g0" -> 1 [] x = "g1" -> 2 [] x = "o1" -> 3 [] x = "o2" -> 4 [] x = "o3" -> 5
                  [] x = "s1" -> 6 [] x = "s2" -> 7 [] OTHER -> 8]

AllIdsO == <<"o1", "o2", "o3">>
AllIdsS == <<"s1", "s2", "s3">>
MdFor(ids) == [has |-> TRUE, rows |-> [k \in 1..Len(ids) |-> <<<<"k1", "s", <<ids[k]>>>>>>]]
Universe ==
  UNION {UNION {{[obs |-> SubSeq(AllIdsO, 1, n), samp |-> SubSeq(AllIdsS, 1, m), mat |-> mm,
                  omd |-> IF md THEN MdFor(SubSeq(AllIdsO, 1, n)) ELSE NoMd,
                  smd |-> IF md THEN NoMd ELSE MdFor(SubSeq(AllIdsS, 1, m)), type |-> "OTU table", tid |-> ""] :
                   mm \in [1..n -> [1..m -> Vals]], md \in BOOLEAN} : m \in 1..MaxM} : n \in 1..MaxN}

LInit == /\ tbl \in Universe
         /\ heap = [a |-> Fresh(tbl)] /\ hist = <<>> /\ init = [tag |-> "lemma"]
LNext == UNCHANGED <<tbl, heap, hist, init>>
LSpec == LInit /\ [][LNext]_<<tbl, heap, hist, init>>

Same(a, b) == a.obs = b.obs /\ a.samp = b.samp /\ a.mat = b.mat /\ a.omd = b.omd /\ a.smd = b.smd

TransposeInvolution == Same(Transpose(Transpose(tbl)), tbl)
\* the definitions restated in BiomTableProofs (for the proof system) are the operators of BiomTable
Proofs == INSTANCE BiomTableProofs
ProofCopiesAgree ==
  /\ Proofs!TransposeP(tbl) = Transpose(tbl)
  /\ Proofs!ShapedP(tbl) = Shaped(tbl)
  /\ \A j \in 1..Len(tbl.samp) : Proofs!ColP(tbl, j) = Col(tbl, j)
  /\ \A o \in PermsOf(tbl.obs) : Proofs!SortObsP(tbl, o) = SortOrder(tbl, o, "observation")
  /\ \A k \in 1..Len(tbl.obs) :
        LET r == RowAt(tbl, "observation", k)
            n == {<<"k1", "s", <<"new">>>>, <<"k9", "s", <<"v">>>>}
        IN /\ Proofs!RowUpdateP(r, n) = RowUpdate(r, n) /\ Proofs!RowUpdateP(n, r) = RowUpdate(n, r)
           /\ Proofs!RowDeleteP(r, {"k1"}) = RowDelete(r, {"k1"}) /\ Proofs!RowKeysP(r) = RowKeys(r)
  /\ \A u \in {tbl, Transpose(tbl), RemoveEmpty(tbl, "whole"), PA(tbl)} :
        Proofs!EqContentP(tbl, u) = EqContent(tbl, u) /\ Proofs!EqContentP(u, tbl) = EqContent(u, tbl)
  /\ \A n \in 0..3 : \A sq \in [1..n -> {"o1", "o2", "zz"}] :
        /\ Proofs!IsInjP(sq) = IsInj(sq)
        /\ \A e \in {"o1", "o2", "zz", "o3"} : Proofs!IdxP(sq, e) = Idx(sq, e)
        /\ \A ix \in [1..2 -> 1..n] : Proofs!PickP(sq, ix) = Pick(sq, ix)
SortInverse ==
  \A ax \in Axes : \A o \in PermsOf(Ids(tbl, ax)) :
     Same(SortOrder(SortOrder(tbl, o, ax), Ids(tbl, ax), ax), tbl)
FilterAllIsIdentity == \A ax \in Axes : Same(FilterIds(tbl, SeqSet(Ids(tbl, ax)), ax, FALSE), tbl)
FilterInvertIsComplement ==
  \A ax \in Axes : \A S \in SUBSET SeqSet(Ids(tbl, ax)) :
     Same(FilterIds(tbl, S, ax, TRUE), FilterIds(tbl, SeqSet(Ids(tbl, ax)) \ S, ax, FALSE))
FilterPreservesValues ==
  \A ax \in Axes : \A S \in SUBSET SeqSet(Ids(tbl, ax)) :
     LET f == FilterIds(tbl, S, ax, FALSE) IN
     /\ Coherent(f)
     /\ \A o \in SeqSet(f.obs), s \in SeqSet(f.samp) : Val(f, o, s) = Val(tbl, o, s)
RemoveEmptyRemovesExactlyZeros ==
  LET r == RemoveEmpty(tbl, "whole") IN
  /\ SeqSet(r.obs) = {tbl.obs[i] : i \in {k \in 1..Len(tbl.obs) : ~VecZero(tbl.mat[k])}}
  /\ SeqSet(r.samp) = {tbl.samp[j] : j \in {k \in 1..Len(tbl.samp) : ~VecZero(Col(tbl, k))}}
  /\ VEq(Total(r), Total(tbl))
TransposeCommutesWithFilter ==
  \A S \in SUBSET SeqSet(tbl.obs) :
     Same(Transpose(FilterIds(tbl, S, "observation", FALSE)), FilterIds(Transpose(tbl), S, "sample", FALSE))
MergeWithSelfDoubles ==
  LET m == MergeGeneral(tbl, tbl, "union", "union") IN
  m.obs = tbl.obs /\ m.samp = tbl.samp /\ VEq(Total(m), Add(Total(tbl), Total(tbl)))
PartitionCovers ==
  \A ax \in Axes :
     LET a == [f |-> "parity", axis |-> ax, remove_empty |-> FALSE, ignore_none |-> FALSE]
         parts == PartsModel(a, tbl)
     IN /\ UNION {SeqSet(Ids(parts[p].t, ax)) : p \in 1..Len(parts)} = SeqSet(Ids(tbl, ax))
        /\ VEq(SumSeq([p \in 1..Len(parts) |-> Total(parts[p].t)]), Total(tbl))
CollapseConserves ==
  \A ax \in Axes :
     LET a == [f |-> "parity", axis |-> ax, norm |-> FALSE, min_group_size |-> 1, include_collapsed_metadata |-> TRUE]
     IN VEq(Total(CollapseModel(a, tbl)), Total(tbl))
EncodeDecode ==
  LET raw == EncodeRaw(tbl) IN
  /\ DecodeCSR(raw.obs, Len(tbl.obs), Len(tbl.samp)) = tbl.mat
  /\ DecodeCSC(raw.samp, Len(tbl.obs), Len(tbl.samp)) = tbl.mat
  /\ ViewWellFormed(raw.obs, Len(tbl.obs), Len(tbl.samp), Nnz(tbl))
  /\ ViewWellFormed(raw.samp, Len(tbl.samp), Len(tbl.obs), Nnz(tbl))
PAIdempotent == PA(PA(tbl)).mat = PA(tbl).mat
NormSumsToOne ==
  \A ax \in Axes : \A k \in 1..Len(Ids(tbl, ax)) :
     IsPos(VecSum(Vec(tbl, ax, k))) => VEq(VecSum(Vec(NormT(tbl, ax), ax, k)), One)
=============================================================================
