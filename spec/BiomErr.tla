------------------------------ MODULE BiomErr ------------------------------
(* Bounded behaviour generator over the reference machine of BiomErrCore; TLC checks the  *)
(* machine's own properties on every reachable state and exports behaviours for replay.   *)
EXTENDS BiomErrCore

(************************ bounded behaviour generator ************************)
CONSTANTS ReqAlphabet,     \* set of requests
          EnterAlphabet,   \* set of requests used for errstate
          TrigKinds,       \* kinds that an input can trip in isolation
          Sites,           \* function kind -> set of call sites
          Depth, MaxNest, Pick, Salt,
          Focus            \* "" = the whole alphabet; "call" = only the events around the 'call' reaction
VARIABLES st, hist
vars == <<st, hist>>

Events(s) ==
  {[act |-> "seterr", req |-> r] : r \in ReqAlphabet}
  \cup (IF Len(s.frames) < MaxNest THEN {[act |-> "enter", req |-> r] : r \in EnterAlphabet} ELSE {})
  \cup (IF s.frames # <<>> THEN {[act |-> "exit"], [act |-> "exit_exc"]} ELSE {})
  \cup {[act |-> "seterrcall", kind |-> k, cb |-> c] : k \in {"empty", "obsdup", "bogus"}, c \in {"cb1", "cb2"}}
  \cup UNION {{[act |-> "trigger", kind |-> k, site |-> x] : x \in Sites[k]} : k \in TrigKinds}
  \cup {[act |-> "noerror", site |-> x] : x \in {"constructor", "filter"}}

\* the 'call' reaction needs three steps to be observed (register a callback, select the reaction, trip the
\* kind): a focused alphabet makes those sequences exhaustive at depth 3-4
CallFocus(e) ==
  CASE e.act \in {"seterr", "enter"} -> \E i \in 1..Len(e.req) : e.req[i][2] = "call"
    [] e.act = "seterrcall" -> e.kind # "bogus"
    [] e.act = "trigger" -> e.kind \in {"empty", "obsdup"} /\ e.site = "constructor"
    [] e.act \in {"exit", "exit_exc"} -> TRUE
    [] OTHER -> FALSE
FocusedEvents(s) == IF Focus = "call" THEN {e \in Events(s) : CallFocus(e)} ELSE Events(s)

Init == st = [profile |-> Default, frames |-> <<>>, cbs |-> NoCbs] /\ hist = <<>>

\* Pick[d] = how many of the enabled events are taken at depth d (0 = all); deterministic stride
Sample(S, k, salt) ==
  IF k = 0 \/ Cardinality(S) <= k THEN S
  ELSE LET sq == SetToSeq(S)
           stride == Len(sq) \div k
       IN {sq[(salt % stride) + 1 + (j - 1) * stride] : j \in 1..k}
Next ==
  /\ Len(hist) < Depth
  /\ \E e \in Sample(FocusedEvents(st), Pick[Len(hist) + 1], Salt + 3 * Len(hist) + Len(st.frames)) :
       /\ st' = Step(st, e)
       /\ hist' = Append(hist, e)

Spec == Init /\ [][Next]_vars

\* properties of the reference machine itself, checked by TLC on every reachable state
TypeOK == /\ st.profile \in [Kinds -> Reactions]
          /\ \A i \in 1..Len(st.frames) : st.frames[i] \in [Kinds -> Reactions]
\* a refused request changes nothing; an exit restores exactly what the matching enter saw
RefusedChangesNothing ==
  [][\A r \in ReqAlphabet : (~ValidReq(r) /\ hist' = Append(hist, [act |-> "seterr", req |-> r])) => st' = st]_vars
ScopedRestore ==
  [][(Len(hist') > 0 /\ hist'[Len(hist')].act \in {"exit", "exit_exc"} /\ st.frames # <<>>)
       => st'.profile = st.frames[Len(st.frames)]]_vars
=============================================================================
