---------------------------- MODULE BiomProps ----------------------------
(***************************************************************************)
(* Property-level specification: for every public call a record of named  *)
(* clauses.  Each clause transcribes one sentence of one listed property  *)
(* (the prefix of its name is the property id) and nothing more: order is *)
(* compared only where the property fixes order, exception classes only   *)
(* where the property names one.                                          *)
(*                                                                         *)
(* An event `ev` is a record                                               *)
(*   call, recv, res : STRING     the call, receiver slot, result slot     *)
(*   args            : record     abstract arguments (shape per call)      *)
(*   out             : STRING     "ok" | "table_error" | "error:<Class>"   *)
(*   pre, post       : slot -> table   every live table before/after       *)
(*   obs             : record     observations that are not state          *)
(* The same operators are used on behaviours of BiomModel (TLC checks that *)
(* the constructive model satisfies them) and on events recorded from the  *)
(* implementation (BiomTrace).                                             *)
(***************************************************************************)
EXTENDS BiomTable

Ok(ev)       == ev.out = "ok"
TableErr(ev) == ev.out = "table_error"
Failed(ev)   == ev.out # "ok"
Live(h)      == DOMAIN h

\* ---------------------------------------------------------------- C05
\* lk : what the implementation's own lookups answered on a deep copy
LookupsOk(t) ==
  \* the library itself builds tables with an empty axis whose matrix is 0 x 0 (and its own tests
  \* expect that), so the shape is compared only when there are cells
  /\ IsEmptyTable(t) \/ t.lk.shape = <<Len(t.obs), Len(t.samp)>>
  /\ t.lk.obs = IdxSeq(Len(t.obs))          \* index(id) is 1-based position of id
  /\ t.lk.samp = IdxSeq(Len(t.samp))
  /\ t.lk.exists_ok                          \* exists(id) for every id, both axes
  /\ ~t.lk.unknown_found                     \* an ID that is on neither axis is unknown
  \* metadata(id, axis) answers with the row stored at that ID's position
  /\ t.omd.has => t.lk.omd_by_id = t.omd.rows
  /\ t.smd.has => t.lk.smd_by_id = t.smd.rows
C05_Coherent(t) == Coherent(t) /\ LookupsOk(t)

AllCoherent(h) == \A s \in Live(h) : C05_Coherent(h[s])

\* ---------------------------------------------------------------- C07
\* slots in `touched` may change; every other live table keeps its content
FrameRule(ev, touched) ==
  \A s \in Live(ev.pre) : s \notin touched =>
     s \in Live(ev.post) /\ SameTable(ev.pre[s], ev.post[s])

HeapUnchanged(ev) == FrameRule(ev, {}) /\ Live(ev.post) = Live(ev.pre)

\* the common part of every call that has an `inplace` flag.  want(t) says
\* whether table t is an acceptable result for receiver content ev.pre[recv]
InplaceClauses(ev) ==
  [C07_inputs_unchanged |->
      IF Ok(ev) /\ ev.args.inplace THEN FrameRule(ev, {ev.recv}) ELSE FrameRule(ev, {ev.res}),
   C07_inplace_returns_receiver |->
      (Ok(ev) /\ ev.args.inplace) => ev.obs.ret_is_recv,
   C07_new_object_when_not_inplace |->
      (Ok(ev) /\ ~ev.args.inplace) => ~ev.obs.ret_is_recv,
   C07_inplace_equals_copying_variant |->
      \* the driver ran the opposite variant on a deep copy of the same pre-state
      IF ~ev.obs.twin_ran THEN TRUE
      ELSE IF Ok(ev) THEN /\ ev.obs.twin_out = "ok"
                         /\ SameTable(IF ev.args.inplace THEN ev.post[ev.recv] ELSE ev.post[ev.res],
                                      ev.obs.twin)
      ELSE ev.obs.twin_out # "ok"]

ResultSlot(ev) == IF ev.args.inplace THEN ev.recv ELSE ev.res

\* operations documented to return a new table: the receiver stays as it was and the result is a
\* different object (so later in-place changes to the result cannot show through in the original)
NewTableClauses(ev) ==
  [C07_inputs_unchanged |-> FrameRule(ev, {ev.res}),
   C07_result_is_a_new_table |-> Ok(ev) => ~ev.obs.ret_is_recv]

\* ---------------------------------------------------------------- C08
\* filter by an ID collection
Clauses_filter_ids(ev) ==
  LET pre  == ev.pre[ev.recv]
      ax   == ev.args.axis
      K    == SeqSet(ev.args.ids)
      known == K \subseteq SeqSet(Ids(pre, ax))
      want == FilterIds(pre, K, ax, ev.args.invert)
  IN IF ~known
     THEN [C08_unknown_id_is_error |-> Failed(ev),
           C08_unknown_id_leaves_table_unchanged |-> HeapUnchanged(ev)]
     ELSE IF Failed(ev) THEN
          \* emptying a table is legal under the default profile; nothing else may fail -- on a table of the
          \* property's domain (an axis of length zero is outside it: nothing is demanded there)
          IF IsEmptyTable(pre) THEN [C08_out_of_domain_empty_table |-> TRUE] ELSE [C08_filter_succeeds |-> FALSE]
     ELSE LET post == ev.post[ResultSlot(ev)] IN
          [C08_kept_exactly_in_order |-> Ids(post, ax) = Ids(want, ax),
           C08_vectors_intact |-> post.mat = want.mat,
           C08_metadata_intact |-> MdEq(post, want, ax),
           C08_other_axis_untouched |-> /\ Ids(post, Other(ax)) = Ids(pre, Other(ax))
                                        /\ MdEq(post, pre, Other(ax)),
           C08_type_kept |-> post.type = pre.type]

\* filter by a predicate: obs.calls = sequence of [vec, id, md, ret] records
Clauses_filter_pred(ev) ==
  LET pre  == ev.pre[ev.recv]
      ax   == ev.args.axis
      ids  == Ids(pre, ax)
      calls == ev.obs.calls
      accepted == {calls[k].id : k \in {x \in 1..Len(calls) : calls[x].ret}}
      want == FilterIds(pre, accepted, ax, ev.args.invert)
  IN IF Failed(ev) THEN (IF IsEmptyTable(pre) THEN [C08_out_of_domain_empty_table |-> TRUE] ELSE [C08_filter_succeeds |-> FALSE])
     ELSE LET post == ev.post[ResultSlot(ev)] IN
      [C08_pred_called_once_per_id_in_order |-> [k \in 1..Len(calls) |-> calls[k].id] = ids,
       C08_pred_gets_true_vector |->
          \A k \in 1..Len(calls) : k <= Len(ids) => calls[k].vec = Vec(pre, ax, k),
       C08_pred_gets_metadata |->
          \A k \in 1..Len(calls) : k <= Len(ids) => SeqSet(calls[k].md) = RowAt(pre, ax, k),
       C08_kept_exactly_in_order |-> Ids(post, ax) = Ids(want, ax),
       C08_vectors_intact |-> post.mat = want.mat,
       C08_metadata_intact |-> MdEq(post, want, ax),
       C08_other_axis_untouched |-> /\ Ids(post, Other(ax)) = Ids(pre, Other(ax))
                                    /\ MdEq(post, pre, Other(ax)),
       C08_pred_equals_id_list |->
          \* the driver also filtered a deep copy by the list of accepted IDs
          ev.obs.byids_out = "ok" /\ SameTable(post, ev.obs.byids)]

Clauses_remove_empty(ev) ==
  LET pre  == ev.pre[ev.recv]
      want == RemoveEmpty(pre, ev.args.axis)
  IN IF Failed(ev) THEN [C08_remove_empty_succeeds |-> FALSE]
     ELSE LET post == ev.post[ResultSlot(ev)] IN
      [C08_remove_empty_exactly_zero_vectors |-> post.obs = want.obs /\ post.samp = want.samp,
       C08_remove_empty_vectors_intact |-> post.mat = want.mat,
       C08_remove_empty_metadata_intact |-> MdEq(post, want, "observation") /\ MdEq(post, want, "sample")]

Clauses_head(ev) ==
  LET pre  == ev.pre[ev.recv]
      want == HeadT(pre, ev.args.n, ev.args.m)
  IN IF ev.args.n <= 0 \/ ev.args.m <= 0
     THEN [C08_head_bad_request_refused |-> Failed(ev) /\ HeapUnchanged(ev)]
     ELSE IF Failed(ev) THEN [C08_head_succeeds |-> FALSE]
     ELSE LET post == ev.post[ev.res] IN
      [C08_head_leading_block |-> post.obs = want.obs /\ post.samp = want.samp /\ post.mat = want.mat,
       C08_head_metadata |-> MdEq(post, want, "observation") /\ MdEq(post, want, "sample"),
       C07_inputs_unchanged |-> FrameRule(ev, {ev.res})]

\* ---------------------------------------------------------------- C06
\* post is pre with axis ax re-ordered to `order` (a permutation of its IDs)
ReorderedTo(pre, post, ax, order) ==
  /\ Ids(post, ax) = order
  /\ Ids(post, Other(ax)) = Ids(pre, Other(ax))
  /\ SeqSet(order) = SeqSet(Ids(pre, ax)) /\ Len(order) = Len(Ids(pre, ax))

ValuesById(pre, post) ==   \* every (o, s) pair of post has pre's value
  \A i \in 1..Len(post.obs), j \in 1..Len(post.samp) :
     /\ Has(pre, "observation", post.obs[i]) /\ Has(pre, "sample", post.samp[j])
     /\ post.mat[i][j] = Val(pre, post.obs[i], post.samp[j])
MdById(pre, post, ax) ==
  /\ \A k \in 1..Len(Ids(post, ax)) :
        Has(pre, ax, Ids(post, ax)[k]) /\ RowAt(post, ax, k) = RowOf(pre, ax, Ids(post, ax)[k])
IdSetsKept(pre, post) ==
  /\ SeqSet(post.obs) = SeqSet(pre.obs) /\ Len(post.obs) = Len(pre.obs)
  /\ SeqSet(post.samp) = SeqSet(pre.samp) /\ Len(post.samp) = Len(pre.samp)

PermClauses(pre, post) ==
  [C06_no_id_gained_lost_duplicated |-> IdSetsKept(pre, post) /\ IsInj(post.obs) /\ IsInj(post.samp),
   C06_values_stay_with_ids |-> IdSetsKept(pre, post) => ValuesById(pre, post),
   C06_metadata_stays_with_ids |-> IdSetsKept(pre, post) =>
                                     MdById(pre, post, "observation") /\ MdById(pre, post, "sample")]

Clauses_sort_order(ev) ==
  LET pre == ev.pre[ev.recv]
      ax  == ev.args.axis
      isperm == /\ SeqSet(ev.args.order) = SeqSet(Ids(pre, ax))
                /\ Len(ev.args.order) = Len(Ids(pre, ax))
  IN IF ~isperm THEN [C06_out_of_domain_not_a_permutation |-> TRUE]   \* outside the property's quantifier
     ELSE IF Failed(ev) THEN [C06_sort_order_succeeds |-> FALSE]
     ELSE LET post == ev.post[ev.res] IN
       PermClauses(pre, post) @@
       [C06_order_is_requested_order |-> Ids(post, ax) = ev.args.order
                                          /\ Ids(post, Other(ax)) = Ids(pre, Other(ax)),
        C06_type_kept |-> post.type = pre.type,
        C07_inputs_unchanged |-> FrameRule(ev, {ev.res})]

\* sort with a user sort function: obs.sort_in / obs.sort_out are what sort_f got and returned
Clauses_sort(ev) ==
  LET pre == ev.pre[ev.recv]
      ax  == ev.args.axis
  IN IF Failed(ev) THEN [C06_sort_succeeds |-> FALSE]
     ELSE LET post == ev.post[ev.res] IN
       PermClauses(pre, post) @@
       [C06_sort_f_gets_axis_ids |-> ev.obs.sort_in = Ids(pre, ax),
        C06_order_is_requested_order |-> Ids(post, ax) = ev.obs.sort_out
                                          /\ Ids(post, Other(ax)) = Ids(pre, Other(ax)),
        C07_inputs_unchanged |-> FrameRule(ev, {ev.res})]

Clauses_transpose(ev) ==
  LET pre == ev.pre[ev.recv] IN
  IF Failed(ev) THEN [C06_transpose_succeeds |-> FALSE]
  ELSE LET post == ev.post[ev.res] IN
    [C06_transpose_swaps_ids |-> post.obs = pre.samp /\ post.samp = pre.obs,
     C06_transpose_values |-> post.mat = Transpose(pre).mat,
     C06_transpose_metadata |-> MdEq(post, Transpose(pre), "observation")
                                /\ MdEq(post, Transpose(pre), "sample"),
     C07_inputs_unchanged |-> FrameRule(ev, {ev.res})]

DegenerateMd(t) == \E ax \in Axes : Md(t, ax).has /\ \A k \in 1..Len(Md(t, ax).rows) : Md(t, ax).rows[k] = <<>>
Clauses_copy(ev) ==
  LET pre == ev.pre[ev.recv] IN
  IF Failed(ev) THEN [C06_copy_succeeds |-> FALSE]
  ELSE LET post == ev.post[ev.res] IN
    [C06_copy_equal_content |-> SameTable(post, pre),
     \* domain: non-empty tables whose metadata, when present, has at least one category
     \* (the constructor itself turns "every row empty" into "no metadata")
     C16_copy_equals_original |-> IsEmptyTable(pre) \/ DegenerateMd(pre)
                                  \/ (ev.obs.eq_orig /\ ev.obs.eq_orig_rev /\ ~ev.obs.ne_orig),
     C07_inputs_unchanged |-> FrameRule(ev, {ev.res}),
     C07_copy_is_new_object |-> ~ev.obs.ret_is_recv]

\* args.map : sequence of <<old, new>> pairs (a function as a list of pairs)
MapOf(ps) == [o \in {ps[i][1] : i \in 1..Len(ps)} |-> ps[CHOOSE i \in 1..Len(ps) : ps[i][1] = o][2]]

Clauses_update_ids(ev) ==
  LET pre == ev.pre[ev.recv]
      ax  == ev.args.axis
      map == MapOf(ev.args.map)
      okreq == UpdateIdsOk(pre, map, ax, ev.args.strict)
      want == UpdateIds(pre, map, ax)
  IN IF Ids(pre, ax) = <<>> THEN [C06_out_of_domain_empty_axis |-> TRUE]
     ELSE IF ~okreq
     THEN [C06_bad_rename_refused |-> Failed(ev),
           C06_bad_rename_leaves_tables_unchanged |-> HeapUnchanged(ev)]
     ELSE IF Failed(ev) THEN [C06_update_ids_succeeds |-> FALSE]
     ELSE LET post == ev.post[ResultSlot(ev)] IN
       [C06_renamed_exactly |-> Ids(post, ax) = Ids(want, ax)
                                 /\ Ids(post, Other(ax)) = Ids(pre, Other(ax)),
        C06_values_stay_with_ids |-> post.mat = pre.mat,
        C06_metadata_stays_with_ids |-> MdEq(post, pre, "observation") /\ MdEq(post, pre, "sample"),
        C06_no_id_gained_lost_duplicated |-> IsInj(post.obs) /\ IsInj(post.samp)
                                              /\ Len(Ids(post, ax)) = Len(Ids(pre, ax))]

\* align_to(other): args.other = slot of the other table, args.axis in sample/observation/both/detect
Clauses_align_to(ev) ==
  LET pre == ev.pre[ev.recv]
      oth == ev.pre[ev.args.other]
      ao  == SeqSet(pre.obs) = SeqSet(oth.obs) /\ Len(pre.obs) = Len(oth.obs)
      as  == SeqSet(pre.samp) = SeqSet(oth.samp) /\ Len(pre.samp) = Len(oth.samp)
      axis == ev.args.axis
      possible == CASE axis = "both" -> ao /\ as
                    [] axis = "sample" -> as
                    [] axis = "observation" -> ao
                    [] OTHER -> ao \/ as
      doO == (axis \in {"both", "observation"}) \/ (axis = "detect" /\ ao)
      doS == (axis \in {"both", "sample"}) \/ (axis = "detect" /\ as)
  IN IF ~possible
     THEN [C06_unalignable_refused |-> Failed(ev) /\ HeapUnchanged(ev)]
     ELSE IF Failed(ev) THEN [C06_align_to_succeeds |-> FALSE]
     ELSE LET post == ev.post[ev.res] IN
       PermClauses(pre, post) @@
       [C06_order_is_requested_order |->
           /\ post.obs = (IF doO THEN oth.obs ELSE pre.obs)
           /\ post.samp = (IF doS THEN oth.samp ELSE pre.samp),
        C07_inputs_unchanged |-> FrameRule(ev, {ev.res})]
=============================================================================
