---------------------------- MODULE BiomTable ----------------------------
(***************************************************************************)
(* The abstract BIOM table and the constructive meaning of every table     *)
(* operation (what the implementation is supposed to compute).             *)
(*                                                                         *)
(* A table is a record                                                     *)
(*   obs, samp : Seq(Id)            IDs in axis order                      *)
(*   mat       : Seq(Seq(Value))    dense, by position, Len(mat)=Len(obs)  *)
(*   omd, smd  : [has : BOOLEAN, rows : Seq(MdRow)]  per-ID metadata       *)
(*   type, tid : STRING             "" = absent                            *)
(* MdRow is a sequence of entries <<key, kind, vals>>, kind "s" (scalar    *)
(* text), "n" (number), "b" (bool), "l" (list of text), "z" (None); vals   *)
(* is a sequence of tokens.  Rows are compared as SETS of entries (TLC     *)
(* has no order on strings, so no canonical key order is computed here).   *)
(* The hidden representation (CSR/CSC, index order, stored zeros, lookup   *)
(* dicts) is deliberately not part of this state.                          *)
(***************************************************************************)
EXTENDS BiomValue, TLC

SeqSet(s)   == {s[i] : i \in 1..Len(s)}
IsInj(s)    == Cardinality(SeqSet(s)) = Len(s)
\* position of e in seq; 0 when absent (operators below are total: judging a corrupted or
\* incoherent trace must yield FALSE clauses, never a TLC evaluation error)
Idx(seq, e) == IF \E k \in 1..Len(seq) : seq[k] = e THEN CHOOSE k \in 1..Len(seq) : seq[k] = e ELSE 0
IdxSeq(n)   == [i \in 1..n |-> i]
Pick(s, ix) == [k \in 1..Len(ix) |-> s[ix[k]]]        \* s re-indexed by the index sequence ix
SelIdx(s, P(_)) == SelectSeq(IdxSeq(Len(s)), LAMBDA i : P(s[i]))

Axes      == {"observation", "sample"}
Other(ax) == IF ax = "observation" THEN "sample" ELSE "observation"
NoMd      == [has |-> FALSE, rows |-> <<>>]

Ids(t, ax) == IF ax = "observation" THEN t.obs ELSE t.samp
Md(t, ax)  == IF ax = "observation" THEN t.omd ELSE t.smd
NObs(t)    == Len(t.obs)
NSamp(t)   == Len(t.samp)
Col(t, j)  == [i \in 1..Len(t.mat) |-> t.mat[i][j]]
Vec(t, ax, k)    == IF ax = "observation" THEN t.mat[k] ELSE Col(t, k)
Has(t, ax, id)   == id \in SeqSet(Ids(t, ax))
VecOf(t, ax, id) == IF Has(t, ax, id) THEN Vec(t, ax, Idx(Ids(t, ax), id)) ELSE <<>>
Val(t, o, s)     == IF Has(t, "observation", o) /\ Has(t, "sample", s)
                       /\ Idx(t.obs, o) <= Len(t.mat) /\ Idx(t.samp, s) <= Len(t.mat[Idx(t.obs, o)])
                    THEN t.mat[Idx(t.obs, o)][Idx(t.samp, s)] ELSE <<0, 0>>
\* metadata row of the k-th ID as a set of entries; no metadata = empty row
RowAt(t, ax, k)  == IF Md(t, ax).has /\ k \in 1..Len(Md(t, ax).rows) THEN SeqSet(Md(t, ax).rows[k]) ELSE {}
RowOf(t, ax, id) == IF Has(t, ax, id) THEN RowAt(t, ax, Idx(Ids(t, ax), id)) ELSE {<<"#missing-id", "u", <<>>>>}
RowKeys(r)       == {e[1] : e \in r}

\* structurally well-shaped: every positional access below is defined
Shaped(t) ==
  /\ Len(t.mat) = Len(t.obs)
  /\ \A i \in 1..Len(t.mat) : Len(t.mat[i]) = Len(t.samp)
  /\ t.omd.has => Len(t.omd.rows) = Len(t.obs)
  /\ t.smd.has => Len(t.smd.rows) = Len(t.samp)
Coherent(t) == Shaped(t) /\ IsInj(t.obs) /\ IsInj(t.samp)

Content(t) == [obs |-> t.obs, samp |-> t.samp, mat |-> t.mat,
               omd |-> t.omd, smd |-> t.smd, type |-> t.type]
ContentEq(a, b) == Content(a) = Content(b)
\* metadata compared per ID position, rows as sets of entries.  "No metadata" and "an empty
\* row" are the same content (the constructor itself normalises one into the other), so the
\* has-flag is not compared; in particular an emptied axis carries no metadata either way.
MdEq(a, b, ax) ==
  /\ Len(Ids(a, ax)) = Len(Ids(b, ax))
  /\ \A k \in 1..Len(Ids(a, ax)) : RowAt(a, ax, k) = RowAt(b, ax, k)
SameTable(a, b) ==
  /\ a.obs = b.obs /\ a.samp = b.samp /\ a.mat = b.mat /\ a.type = b.type
  /\ MdEq(a, b, "observation") /\ MdEq(a, b, "sample")

IsEmptyTable(t) == Len(t.obs) = 0 \/ Len(t.samp) = 0
VecZero(v)  == \A i \in 1..Len(v) : IsZero(v[i])
VecSum(v)   == SumSeq(v)
Total(t)    == SumSeq([i \in 1..Len(t.mat) |-> SumSeq(t.mat[i])])
NnzVec(v)   == Cardinality({i \in 1..Len(v) : ~IsZero(v[i])})
Nnz(t)      == Cardinality({<<i, j>> \in (1..Len(t.obs)) \X (1..Len(t.samp)) : ~IsZero(t.mat[i][j])})

MdPick(md, ix) == IF md.has THEN [has |-> TRUE, rows |-> Pick(md.rows, ix)] ELSE NoMd

\* keep/reorder observations (rows) resp. samples (columns) by an index sequence
TakeObs(t, ix)  == [t EXCEPT !.obs = Pick(t.obs, ix), !.mat = Pick(t.mat, ix),
                             !.omd = MdPick(t.omd, ix)]
TakeSamp(t, ix) == [t EXCEPT !.samp = Pick(t.samp, ix),
                             !.mat = [i \in 1..Len(t.mat) |-> Pick(t.mat[i], ix)],
                             !.smd = MdPick(t.smd, ix)]
Take(t, ax, ix) == IF ax = "observation" THEN TakeObs(t, ix) ELSE TakeSamp(t, ix)

(*************************** reordering family ***************************)
Transpose(t) ==
  [obs |-> t.samp, samp |-> t.obs,
   mat |-> [j \in 1..Len(t.samp) |-> Col(t, j)],
   omd |-> t.smd, smd |-> t.omd, type |-> "", tid |-> t.tid]

\* order : a permutation of the axis IDs, given as a sequence of IDs
SortOrder(t, order, ax) ==
  Take(t, ax, [k \in 1..Len(order) |-> Idx(Ids(t, ax), order[k])])

(***************************** filter family *****************************)
\* keep : set of IDs; invert : BOOLEAN
FilterIds(t, keep, ax, invert) ==
  Take(t, ax, SelIdx(Ids(t, ax), LAMBDA id : (id \in keep) # invert))

EmptyIdx(t, ax) == {k \in 1..Len(Ids(t, ax)) : VecZero(Vec(t, ax, k))}
DropEmpty1(t, ax) ==
  Take(t, ax, SelectSeq(IdxSeq(Len(Ids(t, ax))), LAMBDA k : k \notin EmptyIdx(t, ax)))
RemoveEmpty(t, axis) ==
  IF axis = "whole" THEN DropEmpty1(DropEmpty1(t, "sample"), "observation")
  ELSE DropEmpty1(t, axis)

Min2(a, b) == IF a < b THEN a ELSE b
HeadT(t, n, m) == TakeSamp(TakeObs(t, IdxSeq(Min2(n, NObs(t)))), IdxSeq(Min2(m, NSamp(t))))

(******************************* renaming *******************************)
\* map : a TLA+ function old id -> new id
RenamedIds(ids, map) == [i \in 1..Len(ids) |-> IF ids[i] \in DOMAIN map THEN map[ids[i]] ELSE ids[i]]
UpdateIdsOk(t, map, ax, strict) ==
  /\ strict => SeqSet(Ids(t, ax)) \subseteq DOMAIN map
  /\ IsInj(RenamedIds(Ids(t, ax), map))
UpdateIds(t, map, ax) ==
  IF ax = "observation" THEN [t EXCEPT !.obs = RenamedIds(t.obs, map)]
  ELSE [t EXCEPT !.samp = RenamedIds(t.samp, map)]

(******************************* metadata *******************************)
\* new entries override entries with the same key; rows are sets of entries
RowUpdate(old, new) == {e \in old : e[1] \notin RowKeys(new)} \cup new
RowDelete(old, keys) == {e \in old : e[1] \notin keys}

(**************************** value transforms ***************************)
MapNZ(t, F(_, _, _)) ==   \* F(value, i, j) applied to the non-zero cells only
  [t EXCEPT !.mat = [i \in 1..Len(t.obs) |-> [j \in 1..Len(t.samp) |->
                       IF IsZero(t.mat[i][j]) THEN Zero ELSE F(t.mat[i][j], i, j)]]]
PA(t) == MapNZ(t, LAMBDA v, i, j : One)
NormT(t, ax) ==
  MapNZ(t, LAMBDA v, i, j :
             Div(v, VecSum(Vec(t, ax, IF ax = "observation" THEN i ELSE j))))

\* ranks of the non-zero values of a vector, as exact rationals
NZIdx(v)  == {k \in 1..Len(v) : ~IsZero(v[k])}
CntLess(v, k) == Cardinality({m \in NZIdx(v) : Less(v[m], v[k])})
CntEq(v, k)   == Cardinality({m \in NZIdx(v) : VEq(v[m], v[k])})
CntDistLess(v, k) == Cardinality({v[m] : m \in {x \in NZIdx(v) : Less(v[x], v[k])}})
RankOf(v, k, method) ==
  CASE method = "min"     -> R(CntLess(v, k) + 1)
    [] method = "max"     -> R(CntLess(v, k) + CntEq(v, k))
    [] method = "dense"   -> R(CntDistLess(v, k) + 1)
    [] method = "average" -> Norm(<<2 * CntLess(v, k) + CntEq(v, k) + 1, 2>>)
    \* one valid ordinal ranking (ties broken by position), used by the model only
    [] method = "ordinal_model" ->
         R(CntLess(v, k) + Cardinality({m \in NZIdx(v) : m <= k /\ VEq(v[m], v[k])}))
    [] OTHER              -> Unknown
RankT(t, ax, method) ==
  MapNZ(t, LAMBDA v, i, j :
             IF ax = "observation" THEN RankOf(t.mat[i], j, method)
             ELSE RankOf(Col(t, j), i, method))
\* an ordinal ranking: a bijection NZIdx -> 1..n that respects the order of the values
ValidOrdinal(v, r) ==
  /\ \A k \in 1..Len(v) : IF IsZero(v[k]) THEN IsZero(r[k]) ELSE IsNat(r[k])
  /\ {r[k][1] : k \in NZIdx(v)} = 1..Cardinality(NZIdx(v))
  /\ \A a, b \in NZIdx(v) : Less(v[a], v[b]) => r[a][1] < r[b][1]

(********************************* merge *********************************)
UnionOrder(a, b)  == a \o SelectSeq(b, LAMBDA x : x \notin SeqSet(a))
InterOrder(a, b)  == SelectSeq(a, LAMBDA x : x \in SeqSet(b))
MergeAxisIds(a, b, mode) == IF mode = "union" THEN UnionOrder(a, b) ELSE InterOrder(a, b)
ValOr0(t, o, s) == IF Has(t, "observation", o) /\ Has(t, "sample", s) THEN Val(t, o, s) ELSE Zero
\* the general path: first-seen order, prefer_self metadata
MergeMdRows(a, b, ax, ids) ==
  [k \in 1..Len(ids) |->
     IF Md(a, ax).has /\ Has(a, ax, ids[k]) THEN Md(a, ax).rows[Idx(Ids(a, ax), ids[k])]
     ELSE IF Md(b, ax).has /\ Has(b, ax, ids[k]) THEN Md(b, ax).rows[Idx(Ids(b, ax), ids[k])]
     ELSE <<>>]
MergeMd(a, b, ax, ids) ==
  IF ~Md(a, ax).has /\ ~Md(b, ax).has THEN NoMd
  ELSE [has |-> TRUE, rows |-> MergeMdRows(a, b, ax, ids)]
MergeGeneral(a, b, smode, omode) ==
  LET so == MergeAxisIds(a.samp, b.samp, smode)
      oo == MergeAxisIds(a.obs, b.obs, omode)
  IN [obs |-> oo, samp |-> so,
      mat |-> [i \in 1..Len(oo) |-> [j \in 1..Len(so) |->
                 Add(ValOr0(a, oo[i], so[j]), ValOr0(b, oo[i], so[j]))]],
      omd |-> MergeMd(a, b, "observation", oo), smd |-> MergeMd(a, b, "sample", so),
      type |-> "", tid |-> ""]

(********************************* concat ********************************)
\* tabs : sequence of tables; ax : the axis along which IDs are concatenated
ConcatDisjoint(tabs, ax) ==
  \A p, q \in 1..Len(tabs) : p # q => SeqSet(Ids(tabs[p], ax)) \cap SeqSet(Ids(tabs[q], ax)) = {}
RECURSIVE ConcatIds(_, _)
ConcatIds(tabs, ax) == IF tabs = <<>> THEN <<>> ELSE Ids(Head(tabs), ax) \o ConcatIds(Tail(tabs), ax)
OwnerOf(tabs, ax, id) == CHOOSE p \in 1..Len(tabs) : Has(tabs[p], ax, id)

(******************************* summaries *******************************)
SumAxis(t, ax) == [k \in 1..Len(Ids(t, ax)) |-> VecSum(Vec(t, ax, k))]
NonzeroCounts(t, ax) == [k \in 1..Len(Ids(t, ax)) |-> NnzVec(Vec(t, ax, k))]
NZVals(v) == SelectSeq(v, LAMBDA x : ~IsZero(x))
=============================================================================
