---------------------------- MODULE BiomProps5 ----------------------------
(***************************************************************************)
(* Property clauses, part 5: mapping files (C18, last sentence) and the    *)
(* `add-metadata` command.                                                 *)
(*                                                                         *)
(* An abstract mapping file is a sequence of lines                         *)
(*    [kind : "hash" | "blank" | "row", fields : Seq(token), deco : ...]   *)
(* "hash" = a line starting with '#': the first one is the header unless a *)
(* header override is given, every other one is a comment.  `deco` says    *)
(* how the line is decorated in the concrete text (quotes, outer blanks);  *)
(* decoration never changes the relation.                                  *)
(* Options: header (override, possibly shorter: selects the first columns),*)
(* ints / floats / sc / scpipe (columns with a conversion).                *)
(***************************************************************************)
EXTENDS BiomProps4

IntLike   == {"7", "0", "-3", "10"}
FloatLike == IntLike \cup {"2.5"}
\* how the library's own separators split the cell tokens of the alphabet
ScSplit(tok) ==
  CASE tok = "p;q" -> <<"p", "q">> [] tok = "p; q ;r" -> <<"p", "q", "r">> [] tok = "p;q|r" -> <<"p", "q|r">>
    [] tok = "a|b;c" -> <<"a|b", "c">> [] OTHER -> <<tok>>
\* list of lists, flattened with the separator token "|" (every field keeps one shape)
PipeSplit(tok) ==
  CASE tok = "p;q|r" -> <<"p", "q", "|", "r">> [] tok = "a|b;c" -> <<"a", "|", "b", "c">>
    [] tok = "p;q" -> <<"p", "q">> [] tok = "p; q ;r" -> <<"p", "q", "r">> [] OTHER -> <<tok>>

HashLines(lines) == SelectSeq(lines, LAMBDA ln : ln.kind = "hash")
RowLines(lines)  == SelectSeq(lines, LAMBDA ln : ln.kind = "row")
HeaderOf(lines, o) == IF o.header # <<>> THEN o.header
                      ELSE IF HashLines(lines) = <<>> THEN <<>> ELSE HashLines(lines)[1].fields
CellAt(row, c) == IF c <= Len(row.fields) THEN row.fields[c] ELSE ""          \* short rows are padded
Conv(o, col, tok) ==
  CASE col \in SeqSet(o.floats) -> IF tok \in FloatLike THEN <<col, "f", <<tok>>>> ELSE <<col, "s", <<tok>>>>
    [] col \in SeqSet(o.ints)   -> IF tok \in IntLike THEN <<col, "i", <<tok>>>> ELSE <<col, "s", <<tok>>>>
    [] col \in SeqSet(o.scpipe) -> <<col, "p", PipeSplit(tok)>>
    [] col \in SeqSet(o.sc)     -> <<col, "l", ScSplit(tok)>>
    [] OTHER -> <<col, "s", <<tok>>>>
\* later options override earlier ones exactly as the command builds its table of functions:
\* sc, then scpipe, then ints, then floats  (Conv tests them in reverse order)

\* domain: when the header is taken from the file, it is written before the first data row
FirstIdx(lines, kind) == IF \E k \in 1..Len(lines) : lines[k].kind = kind
                         THEN CHOOSE k \in 1..Len(lines) : lines[k].kind = kind /\ \A j \in 1..(k - 1) : lines[j].kind # kind
                         ELSE Len(lines) + 1
HeaderFirst(lines, o) == o.header # <<>> \/ FirstIdx(lines, "hash") < FirstIdx(lines, "row")
MapFileOk(lines, o) ==
  LET hdr == HeaderOf(lines, o)
      rows == RowLines(lines)
      ids == [k \in 1..Len(rows) |-> CellAt(rows[k], 1)]
  IN hdr # <<>> /\ rows # <<>> /\ IsInj(ids)
\* the relation the rows describe: a sequence of <<id, set of entries>>
RefMap(lines, o) ==
  LET hdr == HeaderOf(lines, o)
      rows == RowLines(lines)
  IN [k \in 1..Len(rows) |->
        <<CellAt(rows[k], 1),
          {Conv(o, hdr[c], CellAt(rows[k], c)) : c \in 2..Len(hdr)}>>]

\* every converted column ends up with one kind of value (HDF5 stores homogeneous categories)
HomogeneousKinds(lines, o) ==
  LET r == RefMap(lines, o) IN
  \A k1 \in 1..Len(r), k2 \in 1..Len(r) : \A e1 \in r[k1][2], e2 \in r[k2][2] : e1[1] = e2[1] => e1[2] = e2[2]

\* HDF5 stores lists of NON-EMPTY text only (C01's domain): no converted list holds an empty string
ListsNonEmpty(lines, o) ==
  LET r == RefMap(lines, o) IN
  \A k \in 1..Len(r) : \A e \in r[k][2] : e[2] \in {"l", "p"} => \A q \in 1..Len(e[3]) : e[3][q] # ""

\* obs.parsed : sequence of <<id, sequence of entries>> as returned by MetadataMap.from_file
Clauses_mapfile(ev) ==
  LET a == ev.args
      ref == RefMap(a.lines, a.opts)
  IN IF ~HeaderFirst(a.lines, a.opts) /\ HashLines(a.lines) # <<>> THEN [C18_out_of_domain_row_before_header |-> TRUE]
     ELSE IF ~MapFileOk(a.lines, a.opts)
     THEN [C18_mapping_file_without_header_rows_or_unique_ids_refused |-> Failed(ev)]
     ELSE IF Failed(ev) THEN [C18_mapping_file_parses |-> FALSE]
     ELSE
      [C18_mapping_file_ids_are_the_first_column |->
          {ev.obs.parsed[k][1] : k \in 1..Len(ev.obs.parsed)} = {ref[k][1] : k \in 1..Len(ref)}
          /\ Len(ev.obs.parsed) = Len(ref),
       C18_mapping_file_parses_to_its_relation |->
          \A k \in 1..Len(ref) :
             \E q \in 1..Len(ev.obs.parsed) :
                ev.obs.parsed[q][1] = ref[k][1] /\ SeqSet(ev.obs.parsed[q][2]) = ref[k][2]]

\* `biom add-metadata`: args.lines/opts describe the mapping file of args.axis; the command was
\* also given the header option of the OTHER axis (args.other_header) which must not matter
Clauses_cli_add_metadata(ev) ==
  LET pre == ev.pre[ev.recv]
      a   == ev.args
      ax  == a.axis
      ref == RefMap(a.lines, a.opts)
      refIds == {ref[k][1] : k \in 1..Len(ref)}
      refRow(id) == ref[CHOOSE k \in 1..Len(ref) : ref[k][1] = id][2]
  IN IF ~MapFileOk(a.lines, a.opts) \/ ~HeaderFirst(a.lines, a.opts) \/ ~InDomainC01(pre) \/ ev.obs.wrote # "ok"
        \* HDF5 output needs the same categories on every ID: every ID must be named by the file
        \/ (~a.json /\ ~(SeqSet(Ids(pre, ax)) \subseteq refIds))
        \* ... and stores lists only under the reserved hierarchical categories
        \/ (~a.json /\ ~(SeqSet(a.opts.sc) \subseteq {"taxonomy"}))
        \/ (~a.json /\ ~HomogeneousKinds(a.lines, a.opts))
        \/ (~a.json /\ ~ListsNonEmpty(a.lines, a.opts))
     THEN [C18_out_of_domain |-> TRUE]
     ELSE IF Failed(ev) THEN [C18_add_metadata_command_succeeds |-> FALSE]
     ELSE LET post == ev.post[ev.res] IN
      [C18_given_keys_set_on_named_ids |->
          \A k \in 1..Len(Ids(pre, ax)) :
             Ids(pre, ax)[k] \in refIds =>
                RowAt(post, ax, k) = RowUpdate(RowAt(pre, ax, k), refRow(Ids(pre, ax)[k])),
       C18_other_ids_untouched |->
          \A k \in 1..Len(Ids(pre, ax)) : Ids(pre, ax)[k] \notin refIds => RowAt(post, ax, k) = RowAt(pre, ax, k),
       C18_other_axis_untouched |-> MdEq(post, pre, Other(ax)),
       C18_ids_and_values_untouched |-> post.obs = pre.obs /\ post.samp = pre.samp /\ post.mat = pre.mat]
=============================================================================
