#!/bin/sh
# Everything is interpreted; setup only checks that the specification parses and the tools are there.
cd "$(dirname "$0")" || exit 2
set -e
command -v java >/dev/null
test -f /opt/veriftools/tla/tla2tools.jar
mkdir -p .work
cd spec
for m in BiomTrace.tla MC_Gen.tla BiomErrTrace.tla MC_Err.tla BiomRecTrace.tla BiomDrawTrace.tla MC_Draws.tla MC_Lemmas.tla; do
  java -cp /opt/veriftools/tla/tla2tools.jar:/opt/veriftools/tla/CommunityModules-deps.jar tla2sany.SANY "$m" >../.work/sany.log 2>&1 || { cat ../.work/sany.log; exit 1; }
done
cd ..
PYTHONPATH=/repo /venv/bin/python -c "import biom, harness.driver, harness.driver_err, harness.h5raw, harness.draws, harness.recorder, harness.check" 
command -v tlapm >/dev/null || echo "note: tlapm not found (only the thorough tier of C20 uses it)"
echo "setup ok"
